#!/usr/bin/env python3
"""Regenerates MANIFEST.json from the table below (kept as code so that it stays consistent)."""
import json, subprocess

CLAIMED = {
 # id: (text, note, technique)
 "C10": ("Deductive proof, for all stacks, bounds and attempt counts, that BeginCriticalSection is the mixed-radix successor "
         "(val' = (val+1) mod product of bounds, digits in range, identifiers and bounds kept) and that NextFairnessCounter returns an in-range digit, "
         "keeps the prefix and cuts/pushes on identifier or bound change; both panic sites proved unreachable; no overflow; termination of the carry loop.",
         "go/ssa faithful; SMT solvers; math/rand.Uint32 arbitrary; fmt.Errorf pure; slice capacity < 2^48; mixed-radix value lemmas proved by explicit induction in the same run. "
         "The step from 'successor mod P' to 'every combination exactly once per P attempts' is the cyclic-group argument, stated in DESIGN.md section 3 (C10), not mechanised.",
         "contract-based deductive verification: WP over go/ssa, loop invariants + decreases, inductive lemmas, z3/cvc5"),
 "C03": ("Deductive proof, for all values of the supported universe, of one functional contract per operator: the result is the TLA+ value (stated over an abstract "
         "universe Val with kinds, projections and extensionality), the function panics with a TLA+ type error exactly under the stated condition (TLC's error conditions), "
         "every loop terminates (decreases clauses over the iterator model). Covered: =, #, ~, <=>, + - * unary- (with overflow), \\div % (floor semantics), comparisons, .., \\in, \\notin, \\cap, \\cup, \\subseteq, \\, "
         "IsFiniteSet, Cardinality, UNION, SUBSET (every member is a subset of S and there are 2^|S| members, hence all subsets by counting; this failed on the pinned tree: genuine defect, fixed in 2455a71f), Head, Tail, Append, Len, \\o, SubSeq, :>, @@, DOMAIN, Assert, and the Value accessors/constructors they rest on (verified against the representation by closed-world dispatch over the seven impl types).",
         "abs is *defined* by representation axioms (rep*) and the Val vocabulary of /verif/specs/10-tla.spec is trusted as a definition; benbjohnson/immutable is modelled (maps keyed by abs through tla.ValueHasher, iterators by a seen-set); "
         "closed world for tla.impl; operators not yet under contract are listed in evidence under not_under_contract and are NOT covered: Seq, ToString, ^, quantifiers, CHOOSE, comprehension, EXCEPT, cross product, function/record sets.",
         "contract-based deductive verification: WP over go/ssa, seen-set loop invariants, inductive/nonlinear lemmas, z3/cvc5"),
 "C01": ("Deductive proof of the critical-section protocol of the runtime core: LocalArchetypeResource keeps a snapshot discipline (Abort restores the value of the last commit, Commit publishes, Read/Write never touch the snapshot); "
         "MPCalContext.commit calls PreCommit on every touched resource before any Commit (ordering obligation at every Commit call), commits none and keeps the dirty set intact if any pre-commit yields an error, otherwise commits all and empties the set; "
         "MPCalContext.abort calls Abort on every touched resource and empties the set; ArchetypeInterface.Read/Write put the handle into the dirty set before the resource or any sub-resource is touched (obligation at every Index/ReadValue/WriteValue call). "
         "Resources are called through an open-world interface contract (anything may change except the context's own bookkeeping).",
         "MPCalContext.Run's retry loop is under contract too (the section body is a dynamically dispatched call with an assumed open-world contract): commit and abort are only ever called on a well-formed context with every dirty handle registered, abort exactly when the body or commit reported ErrCriticalSectionAborted, and an exit request is honoured only between attempts. NOT covered, hence not decided: the refinement of the interface contract by the resources of package resources (IncMap, HashMap, channels, mailboxes, localshared, persistent, file, CRDT, 2PC, nested archetype) and systems/raftkvs; "
         "trace.* and VClockSink are given frame-only assumed contracts; calls through ArchetypeResource assume implementations outside package distsys cannot touch MPCalContext's unexported fields (Go visibility); the composition 'protocol + per-resource snapshot => atomicity' is the argument of DESIGN.md section 3 (C01), not a mechanised lemma.",
         "contract-based deductive verification: WP over go/ssa, open-world interface contracts with call-tracking ghost sets, seen-set invariants for map ranges, z3/cvc5"),
 "C05": ("Deductive proof that Value.Equal decides equality of the abstract value (hence is an equivalence and ignores construction order) for all seven representations including the causal wrapper, and that Value.Hash and ValueHasher compute a function H of the abstract value "
         "(XOR-fold for sets and functions, sequential fold for tuples), so equal values hash equally and the immutable maps keyed through ValueHasher agree with equality; WrapCausal/StripVClock keep the abstract value.",
         "abs is defined by the representation axioms rep*; H is defined by the axioms hashOfDef/xorOn*/tupHash* (folds over unordered collections axiomatised by their insert step); Len() of immutable maps is the cardinality of the key set (assumed); fnv1a functions are pure. "
         "NOT covered: gob encode/decode round trip, String() as a TLA+ expression, hashmap.HashMap (these clauses of the statement are not decided by this check).",
         "contract-based deductive verification: closed-world dispatch over the representation types, seen-set loop invariants, z3/cvc5"),
 "C04": ("Deductive proof of the procedure-call frame discipline of ArchetypeInterface over the abstract value of the '.stack' and '.pc' locals: Call pushes exactly one record holding '.pc' = the return label and, for every state variable of the callee, its previous value (or the nil value when the variable did not exist yet), leaves all frames below and every local that is not a state variable of the callee untouched, writes the arguments and jumps to the callee's label; "
         "Return pops exactly the top frame, restores every saved variable and '.pc' from it and leaves the rest of the stack unchanged; TailCall keeps the height, the frames below and the return label of the replaced frame; Goto writes only '.pc'. Loops over state variables / saved frames are proved with unbounded invariants (seen-set for the record iteration).",
         "requires distinct handles to denote distinct local resources and the state-variable names of a procedure to be pairwise different, different from '.stack'/'.pc' (svOK: assumed of the generated procTable, not proved of the compiler); the procedure's PreAmble is a dynamically dispatched call with an assumed open-world contract; two genuine defects were repaired first (fix: cb880fd8, 4e2075a7). "
         "Proof hints (/verif/hints.json: unsat cores of earlier runs) select the hypotheses offered to the solver first; the full VC is the fallback and soundness does not depend on the file.",
         "contract-based deductive verification: WP over go/ssa, unbounded loop invariants with cut assertions, abstract-value contracts of the tla layer, z3/cvc5"),
 "C06": ("Deductive proof, per function and for all queue contents, of the transactional queue discipline of the link end points, over exact element sequences: for InputChan, relaxedMailboxesLocal and tcpMailboxesLocal the messages received and not yet consumed by a committed section are (reads of the section in flight) ++ backlog, in arrival order; "
         "ReadValue hands out the front element and moves it to the in-flight list, takes a new message (for TCP: a whole record, kept contiguous and in order) from the underlying channel only when the backlog is empty and exactly once (ghost receive count), a timeout returns ErrCriticalSectionAborted having changed nothing; "
         "Abort puts the in-flight reads back in front of the backlog in order (redelivered first; for mailboxes with the same abstract values), Commit drops exactly the in-flight reads; length() reports the number of messages the mailbox already holds after moving at most one record over. "
         "OutputChan: writes are appended to a buffer and nothing is sent before Commit (frame), Abort discards them, the commit goroutine sends exactly the buffered values, each once, in order (cut-point obligation at the send), then empties the buffer.",
         "NOT covered, hence not decided: the network side of the mailboxes (handleConn's begin/value/precommit/commit protocol, tcpMailboxesRemote / relaxedMailboxesRemote, gob, reconnect and resend), SingleOutputChan, raftkvs customch.go, and the end-to-end statement 'received sequence == sent sequence' that composes both ends (argued in DESIGN.md section 3 (C06)). "
         "Assumed: every record in tcpMailboxesLocal.msgChannel carries at least one message and its slice is not shared with the receiver's slices (declared channel invariant; its only sender handleConn is not under contract); time.After returns a fresh channel; channels are never closed by a third party.",
         "contract-based deductive verification: WP over go/ssa with an aliasing-aware model of append/slices, ghost send/receive counts and last-received value per channel, loop invariants, z3/cvc5"),
 "C07": ("Deductive proof of strict two-phase locking for the shared-variable manager (localshared.go), per function and for all states: the shared variable is read, written, indexed, committed or rolled back only while the sharer holds the lock (obligation at every call into the shared LocalArchetypeResource); "
         "the lock (a capacity-one channel used as a semaphore, with ghost send/receive counts) is taken only on first access, a timed-out acquisition returns ErrCriticalSectionAborted having changed nothing, every method keeps 'tokens put in minus taken out == hasLock', "
         "and the token is given back only by Commit/Abort, after the shared variable has been committed / restored to the last committed value (obligation at every release call); PreCommit, Close and a section that never touched the variable touch nothing.",
         "Thread-modular: each method is verified against its contract for an arbitrary state of the other sharers. The step from 'every sharer follows strict 2PL on a capacity-one semaphore' to 'committed sections are serializable in commit order, no lost update / dirty read' is the classical 2PL theorem, argued in DESIGN.md section 3 (C07), not mechanised; "
         "time.After is modelled as returning a fresh channel the runtime sends on; the channel is assumed never closed (nothing in the package closes it); GetState (persistence snapshot; conditional deferred release) and fairness/liveness of the timed acquisition (no deadlock because every wait is bounded) are NOT covered by obligations.",
         "contract-based deductive verification: WP over go/ssa, ghost channel send/receive counts as lock tokens, cut-point obligations at every access and release, z3/cvc5"),
 "C11": ("Deductive proof of the acceptor rules the two-phase-commit variable rests on, as two-state contracts of the locked region of receiveInternal (strict monitor on the resource mutex; atlock = state when the lock was taken): versions only grow; a stale message (version below current+1) and GetState change nothing and a stale message is rejected; a PreCommit never changes value or version, is accepted only into a state that records exactly that proposal (version, proposer by abstract value), "
         "is rejected without effect when another proposer's PreCommit for the same version or a PreCommit for a higher version is held, and a re-sent PreCommit of the held proposal is accepted again; the proposer's own Abort releases the held proposal and another proposer's Abort releases nothing (these two obligations failed on the pinned tree: genuine defect, fixed in 063c2402); a Commit installs exactly the proposed value and version (strictly greater, otherwise panic) and poisons a local section in flight; "
         "WriteValue enters the section, changes only the working value, and is refused once the section is poisoned or its pre-commit failed.",
         "NOT covered, hence not decided: everything that involves more than one replica — agreement ('every replica installs the same value for each version', 'at most one proposer wins each version'), the proposer side (PreCommit/doPreCommit/Commit/rollback/broadcast with majorities, backoff, timeouts), progress, transports (LocalReplicaHandle/RPCReplicaHandle), Abort/ReadValue of the resource (ReadValue writes criticalSectionState while holding only the read lock — noted in DESIGN.md section 7, not claimed as a defect), Close. "
         "Assumed: versions stay below 2^63-1; logging/timing helpers have no effect on the protected state.",
         "contract-based deductive verification: strict monitor, two-state postconditions relative to lock acquisition, abstract-value equality of TLA+ values (C05), inlining with statically resolved branches, z3/cvc5"),
 "C12": ("Deductive proof for the grow-only counter: Init/Read/Write/Merge against the partial-map view (Merge = pointwise max on the union of keys, Write adds to one slot, Read = wrapped sum), and, as pure lemmas over those contracts, that Merge is commutative, associative and idempotent and Write (non-negative, no overflow) is an inflation. "
         "For the last-writer-wins set: Init/isIn/Read/Merge against two partial maps element -> instant (an element is in the set iff it has an add not older than its latest remove; Merge keeps per element the later add and the later remove — this obligation failed on the pinned tree: genuine defect, fixed in 85beb576), the merge laws up to equal instants, and that what is read depends only on the instants. "
         "For the add-wins set: the clock order (compare = the pointwise order with absent = 0, over both loops), Write (an add / remove moves the element to the add / remove map with its current clock, add or remove, plus one for the writing replica, drops the opposite entry, keeps every other element), Read (exactly the elements whose add clock is not strictly below their remove clock), mergeKeys and Merge (per-element join of the clocks, then the two filters), add and remove maps stay disjoint; as lemmas over the contract of Merge: commutative and idempotent up to equal clocks. "
         "The associativity lemma over that contract FAILS and is a known finding (genuine defect, demonstrated on the real code by findings/c12_aworset_merge_not_associative_demo_test.go; not repaired: it needs a redesign of the set, see DESIGN.md section 4): the check prints KNOWN-FINDING for it.",
         "NOT covered: 'Write is an inflation' for AWORSet (no merge order is defined on its states by the code), LWWSet.Write (stamps the wall clock unconditionally), and the gob pairs; time.Time is compared through an abstract instant; the sum over an unordered map is axiomatised by its insert step; counts are int32 with wrap-around modelled.",
         "contract-based deductive verification: functional contracts + semilattice lemmas, z3/cvc5"),
 "C13": ("Deductive proof, thread-modular over the monitor stateLock (strict: every read/write of value, oldValue, hasOldValue is an obligation 'the lock is held', shared for reads, exclusive for writes; the invariant 'snapshot below working value' is re-established at every unlock), that the CRDT resource never loses state: "
         "the stable value (snapshot while a section is in flight, else the value) only grows in the semilattice order across every locked region; a state received from a peer is inside the stable value once the merger has processed it (this obligation failed on the pinned tree: genuine defect, fixed in 669cc72f); writes of the section in flight change only the working value, Abort restores exactly the stable value, Commit makes the working value stable; "
         "getStableValue and the RPC reply return the stable value (never an in-flight update); every non-nil state received over RPC is queued for the merger exactly once.",
         "CRDT values are abstract: the semilattice laws of Merge (idempotent, commutative, associative) and 'Write is an inflation' are axioms here (for GCounter they are the lemmas proved under C12; for LWWSet they hold up to equal instants, for AWORSet commutativity and idempotence are lemmas under C12 and associativity is violated on reachable states — a known finding of C12). "
         "NOT covered: broadcast/runBroadcasts/tryConnectPeers (RPC, timers, needBroadcastCount bookkeeping), hence 'eventually reaches every connected peer' (liveness) and 'replicas converge once updates stop' are not decided; Close.",
         "contract-based deductive verification: strict monitor invariants (Owicki-Gries style) over go/ssa, two-state postconditions relative to the lock acquisition (atlock), abstract semilattice axioms, z3/cvc5"),
 "C18": ("Deductive proof of the logging discipline of the runtime: the event accumulator appends exactly one element per recorded read / write, carrying the indices and the value of the access (and the old-value hint pointer for writes), BeginEvent requires an empty accumulator, CommitEvent hands the recorder exactly one event holding exactly the accumulated elements, the abort flag and the archetype identity, and never touches the handed-over elements again (this frame obligation failed on the pinned tree: genuine defect, fixed in 152ee63d); "
         "Read / Write log the value actually read / written with its indices; commit finalises the attempt (isAbort = false) exactly when it succeeds, abort finalises it with isAbort = true; Run's loop invariant (ghost counts per accumulator) shows that every attempt that is begun is finalised exactly once before the next one begins, whatever path the loop takes (read error, body error, commit error, success).",
         "NOT covered: vector clocks (VClockSink is trusted frame-only; 'own component grows by one per attempt' and 'a reader's clock dominates the writer's' are not decided), JSON serialisation (MarshalJSON, JSONToTLA.scala), the replay claim ('replaying the committed writes reproduces every logged read'), and logging by resources other than the runtime core. "
         "RecordRead/RecordWrite may panic on a resource name without a dot (admitted in their contracts; the code generator never produces one). The attempt that ends the run (ErrDone) or fails with another error is begun but not finalised, by design of Run.",
         "contract-based deductive verification: WP over go/ssa, ghost counters updated by contract (ghostset), loop invariant over the retry loop, cut-point obligations on call arguments, slice-aliasing model, z3/cvc5"),
 "C19": ("Deductive proof of the state logic of the failure detector: ReadValue's answer is a function of the state getState returned (uninitialised: the section aborts after one polling interval, the only delay; alive: FALSE; anything else: TRUE) and reading never writes the state (strict monitor on the state lock); "
         "every iteration of the polling loop records failed whenever the dial fails, the RPC reports an error or the timeout fires, and otherwise records exactly the monitor's reply (cut-point obligations at every setState call); "
         "Monitor.RunArchetype records alive before the archetype runs, finished after a normal end, failed after an error, and its deferred epilogue records failed and returns an error exactly when the archetype panicked (recover modelled); IsAlive answers with the recorded state or an error for an unknown archetype.",
         "The monitor's table is a ghost map (hashmap.HashMap is not modelled; setState/getState of Monitor are trusted against it); net, net/rpc and time are external: dial/RPC results are arbitrary, the reply object shared with the RPC machinery is not tracked. "
         "NOT covered: the timing claims ('within a bounded number of polling intervals', 'keeps doing so', 'from the first successful poll on') as temporal statements — what is proved is the per-poll transition they follow from (DESIGN.md section 3 (C19)); monitor shutdown/ListenAndServe/Close, SingleFailureDetector.Close and the IncMap wrapper.",
         "contract-based deductive verification: WP over go/ssa, strict monitor, cut-point obligations with call arguments, return-point assertions over locals, recover/panicking model, z3/cvc5"),
 "C17": ("Deductive proof, by a monitor invariant on runStateLock (thread-modular: every lock region re-establishes it, so every interleaving of Stop/Run regions does), that at most one exit request is ever sent (so the send under the lock cannot block), awaitExit is closed at most once and only when the context leaves or skips the running phase, a second Run is refused, that cleanupResources calls Close on every registered resource before awaitExit is closed, and that the map resources (IncMap, HashMap) close every sub-resource they hold (Persistent.Close forwards).",
         "sync.Mutex gives mutual exclusion; channels are modelled by ghost capacity / total-sends / closed state; requestExit is written only by the running Run (declared 'keeps'); Stop's postcondition closed(awaitExit) rests on the declared (and checked at every send site of the package) fact that awaitExit is never sent on; termination of the wait in Stop (liveness), 'closed exactly once' (at least once is what is proved) and the distinct reporting of termination causes by Run are NOT covered; the map resources rest on an assumed abstract view of hashmap.HashMap.",
         "contract-based deductive verification: monitor invariants (Owicki-Gries style) over go/ssa, ghost channel state, z3/cvc5"),
}

NOT_APPLICABLE = {
 "C02": "needs a formal semantics of MPCal/PlusCal/TLA+ text inside the verifier (a relation between two languages); no function contract can state it; the Scala front end cannot be built offline",
 "C08": "whole-history Raft safety over many processes and in-flight messages: needs a global inductive invariant over the generated system, not a function contract",
 "C09": "linearizability of client histories is a whole-history property of the distributed system; not expressible as a per-function contract",
 "C14": "replica agreement under crash faults is a protocol-level invariant over several processes and messages in flight",
 "C15": "mutual exclusion/ordering is a global invariant over server queue, network bag and clients of generated code whose per-label semantics (C02) is out of reach",
 "C16": "invariants of six generated systems; protocol-level, same reason as C08/C15",
}

PENDING_REASON = "contracts for this property are not yet discharged in this revision of /verif; not claimed until its check passes on the unchanged tree (see DESIGN.md section 3 for the plan)"

def main():
    ids = [json.loads(l)["id"] for l in open("/verif/properties.jsonl")]
    checks = []
    for pid, (text, note, tech) in sorted(CLAIMED.items()):
        checks.append({
            "property_id": pid,
            "quick_cmd": f"./check {pid} --tier quick",
            "thorough_cmd": f"./check {pid} --tier thorough",
            "evidence_file": f"/verif/evidence/{pid}.json",
            "replay_cmd_template": "replay/run.sh {path}",
            "engine": "pgoverify",
            "level_claimed": {"category": "proof", "text": text, "design_ref": f"DESIGN.md section 3 ({pid})"},
            "level_note": note,
            "technique": tech,
        })
    na = []
    for pid in ids:
        if pid in CLAIMED:
            continue
        na.append({"property_id": pid, "reason": NOT_APPLICABLE.get(pid, PENDING_REASON)})
    try:
        commits = subprocess.check_output(["git", "-C", "/repo", "log", "--format=%H %s", "--grep=^verif hook"], text=True).strip().splitlines()
    except Exception:
        commits = []
    m = {
        "version": 1,
        "setup_cmd": "./build.sh",
        "hooks": {
            "guard": "verif",
            "enable": "contracts are comment-only files zz_contracts_verif.go with '//go:build verif'; the verifier loads packages with -tags=verif; no executable code is added",
            "baseline_off_cmd": "for m in $(cat /w/out/gomods.txt); do MF=$(cd /repo/$m && . /w/out/goenv.sh && gomodflag); (cd /repo/$m && go test $MF -json -vet=off -count=1 -timeout 25m ./...); done",
            "source_commits": [c.split()[0] for c in commits],
            "add_only": True,
        },
        "engines": [{"name": "pgoverify", "path": "/verif/engine", "serves_properties": sorted(CLAIMED),
                     "kind_free_text": "contract-based deductive verifier for Go written for this task: VC generation over go/ssa from /repo's working tree, contracts in //@ comments, obligations discharged by z3 4.8.12 / z3 5.1.0 / cvc5 1.0"}],
        "checks": checks,
        "not_applicable": na,
        "notes": "Every check regenerates all verification conditions from /repo's current working tree; no verdict is cached between runs; hints.json only orders the hypotheses tried first (a subset of the freshly generated hypotheses, so a stale hint can cost time but never soundness). known_findings.txt lists genuine defects by obligation name.",
    }
    json.dump(m, open("/verif/MANIFEST.json", "w"), indent=1)
    print("claimed:", sorted(CLAIMED), "not claimed:", [x["property_id"] for x in na])

main()
