#!/bin/sh
# usage: replay/run.sh <replay file written by a failed check>
# Prints the failed obligation; when the file carries a failing input, re-runs the generated test (the function's
# contract compiled to Go) against the real function in /repo through `go test -overlay` (nothing is written to /repo).
f="$1"
[ -f "$f" ] || { echo "no such replay file: $f" >&2; exit 2; }
python3 - "$f" <<'PY'
import json,sys,os,subprocess,tempfile,re
d=json.load(open(sys.argv[1]))
print("property   :", d.get("property"))
print("obligation :", d.get("obligation"))
print("clause     :", d.get("clause"))
print("position   :", d.get("position"))
print("solver     :", d.get("solver_status"))
src=d.get("replay_test_source")
if not src:
    print("failing input: none found (", d.get("replay_note","the contract is outside the executable fragment"), ")")
    print("solver output:"); print(d.get("solver_output",""))
    sys.exit(0)
print("failing input recorded:", d.get("failing_input"))
m=re.search(r" in (/\S+)$", d.get("replay_cmd",""))
pkgdir=m.group(1) if m else None
if not pkgdir or not os.path.isdir(pkgdir):
    print("package directory not found; test source follows"); print(src); sys.exit(0)
tmp=tempfile.mkdtemp(prefix="pvreplay.")
t=os.path.join(tmp,"replay_test.go"); open(t,"w").write(src)
ov=os.path.join(tmp,"ov.json"); json.dump({"Replace":{os.path.join(pkgdir,"zz_pgoverify_replay_test.go"):t}},open(ov,"w"))
env={k:v for k,v in os.environ.items() if k not in ("GOFLAGS","GOWORK")}; env["GOPROXY"]="off"
r=subprocess.run(["go","test","-overlay",ov,"-vet=off","-count=1","-timeout","60s","-run","^TestPgoverifyReplay$","."],cwd=pkgdir,env=env,capture_output=True,text=True)
print("--- re-running against the current tree:")
print(r.stdout[-2000:]); print(r.stderr[-500:])
print("replay result:", "the real code still contradicts the contract on this input" if "REPLAY-FAIL" in r.stdout else "no failing input on the current tree")
PY
