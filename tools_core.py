#!/usr/bin/env python3
# usage: tools_core.py file.smt2 [timeout] [z3 opts...] — prints the assertions in the unsat core
import sys,subprocess,re
f=sys.argv[1]; t=sys.argv[2] if len(sys.argv)>2 else '60'
lines=open(f).read().split('\n')
out=['(set-option :produce-unsat-cores true)']; names={}
n=0
for i,l in enumerate(lines):
    if l.startswith('(assert ') and l.endswith(')'):
        n+=1; nm='a%d'%i; names[nm]=l
        out.append('(assert (! %s :named %s))'%(l[8:-1],nm))
    elif l.startswith('(check-sat'):
        out.append(l); out.append('(get-unsat-core)')
    elif l.startswith('(get-model') or l.startswith('(get-info'): pass
    else: out.append(l)
open('/tmp/core.smt2','w').write('\n'.join(out))
r=subprocess.run(['z3-new','-smt2','-T:'+t]+sys.argv[3:]+['/tmp/core.smt2'],capture_output=True,text=True).stdout
print(r.split('\n')[0])
core=re.findall(r'a\d+',r.split('\n',1)[1] if '\n' in r else '')
print(len(core),'of',n)
for c in sorted(core,key=lambda x:int(x[1:])):
    print('--',c, names[c][:400])
