#!/bin/sh
# Builds the verifier offline from files on disk only.
set -e
cd "$(dirname "$0")/engine"
mkdir -p ../bin
env -u GOFLAGS GOWORK=off GOFLAGS=-mod=mod GOPROXY=off GOTOOLCHAIN=local go build -o ../bin/pgoverify .
