package main

import (
	"bytes"
	"runtime"
	"context"
	"fmt"
	"os"
	"os/exec"
	"path/filepath"
	"strings"
	"sync"
	"time"
)

// A solver back end.
type backend struct {
	name string
	cmd  func(file string, timeoutS int) []string
	// noZ3Ext: reject queries using z3-only syntax
	z3only bool
}

var backends = []backend{
	{name: "z3-5.1.0", cmd: func(f string, t int) []string {
		return []string{"z3-new", "-smt2", fmt.Sprintf("-T:%d", t), f}
	}},
	{name: "z3-4.8.12", cmd: func(f string, t int) []string {
		return []string{"z3", "-smt2", fmt.Sprintf("-T:%d", t), f}
	}},
	{name: "cvc5-1.0", cmd: func(f string, t int) []string {
		return []string{"cvc5", "--lang=smt2", fmt.Sprintf("--tlimit=%d", t*1000), f}
	}},
}

// portfolio: the same solvers under other random seeds / instantiation settings. Quantifier-heavy queries have
// erratic run times; a portfolio makes the outcome much less dependent on luck.
var portfolio = []backend{
	// without array extensionality: sound (a weaker theory can only lose proofs), and it avoids the quadratic
	// extensionality case splits over the many map/struct-valued heap cells, which dominate the big VCs
	{name: "z3-5.1.0/noext", cmd: func(f string, t int) []string {
		return []string{"z3-new", "-smt2", fmt.Sprintf("-T:%d", t), "smt.array.extensional=false", f}
	}},
	{name: "z3-4.8.12/noext", cmd: func(f string, t int) []string {
		return []string{"z3", "-smt2", fmt.Sprintf("-T:%d", t), "smt.array.extensional=false", f}
	}},
	{name: "z3-5.1.0/noext-seed7", cmd: func(f string, t int) []string {
		return []string{"z3-new", "-smt2", fmt.Sprintf("-T:%d", t), "smt.array.extensional=false", "smt.random_seed=7", f}
	}},
	{name: "z3-5.1.0/seed7", cmd: func(f string, t int) []string {
		return []string{"z3-new", "-smt2", fmt.Sprintf("-T:%d", t), "smt.random_seed=7", "sat.random_seed=7", f}
	}},
	{name: "z3-5.1.0/seed42", cmd: func(f string, t int) []string {
		return []string{"z3-new", "-smt2", fmt.Sprintf("-T:%d", t), "smt.random_seed=42", "smt.qi.eager_threshold=20", f}
	}},
	{name: "z3-4.8.12/seed7", cmd: func(f string, t int) []string {
		return []string{"z3", "-smt2", fmt.Sprintf("-T:%d", t), "smt.random_seed=7", f}
	}},
	{name: "z3-4.8.12/norelevancy", cmd: func(f string, t int) []string {
		return []string{"z3", "-smt2", fmt.Sprintf("-T:%d", t), "smt.random_seed=3", "smt.relevancy=0", f}
	}},
}

type solveResult struct {
	status  string // unsat | sat | unknown | timeout | error
	backend string
	timeS   float64
	output  string // raw output of the deciding back end (or all, if undecided)
	all     map[string]string
}

// solverSlots bounds the number of solver processes of this check that run at the same time (one per core): the VC
// generator is happy to start hundreds, which only makes every one of them miss its wall-clock budget.
var solverSlots = make(chan struct{}, maxInt(2, runtime.NumCPU()))

func maxInt(a, b int) int {
	if a > b {
		return a
	}
	return b
}

// runOne runs one solver on one query. A solver that hit its wall-clock limit although it was given little CPU (the
// machine is overloaded) has not really been given its budget: it is run again, up to three times.
func runOne(ctx context.Context, b backend, file string, timeoutS int) (string, string) {
	st, out := "", ""
	for attempt := 0; attempt < 4; attempt++ {
		var starved bool
		st, out, starved = runOnce(ctx, b, file, timeoutS<<attempt) // a starved run is repeated with twice the wall-clock budget
		if st != "timeout" || !starved || ctx.Err() != nil || timeoutS <= 2 {
			break // (vacuity cover queries run on a 1 s budget and are expected to time out: never repeated)
		}
	}
	return st, out
}

func runOnce(ctx context.Context, b backend, file string, timeoutS int) (status string, output string, starved bool) {
	select {
	case solverSlots <- struct{}{}:
		defer func() { <-solverSlots }()
	case <-ctx.Done():
		return "timeout", "cancelled before start", false
	}
	args := b.cmd(file, timeoutS)
	// the solver enforces its own limit; this is only a guard against one that does not (counted from process start,
	// not from the moment the query was queued)
	pctx, pcancel := context.WithTimeout(ctx, time.Duration(timeoutS+5)*time.Second)
	defer pcancel()
	c := exec.CommandContext(pctx, args[0], args[1:]...)
	var out bytes.Buffer
	c.Stdout = &out
	c.Stderr = &out
	start := time.Now()
	_ = c.Run()
	wall := time.Since(start)
	if c.ProcessState != nil && wall > time.Second {
		cpu := c.ProcessState.UserTime() + c.ProcessState.SystemTime()
		starved = cpu < wall*6/10
	}
	st, o := classify(ctx, out.String())
	return st, o, starved
}

func classify(ctx context.Context, s string) (string, string) {
	first := strings.TrimSpace(strings.SplitN(s, "\n", 2)[0])
	switch first {
	case "unsat", "sat", "unknown":
		return first, s
	case "timeout":
		return "timeout", s
	}
	if ctx.Err() != nil {
		return "timeout", s
	}
	if strings.Contains(s, "timeout") || strings.Contains(s, "interrupted") {
		return "timeout", s
	}
	return "error", s
}

// solve races the back ends on one query text. wantAll: wait for all back ends
// (thorough cross-check) instead of first definite answer.
func solve(dir, name, text string, timeoutS int, only []string) solveResult {
	if len(only) == 0 && timeoutS > 3 {
		// stage 1: the usually fastest back end alone on a short budget; stage 2: race all of them
		r := solveWith(dir, name, text, 3, []string{"z3-5.1.0", "z3-5.1.0/noext"})
		if r.status == "unsat" || r.status == "sat" {
			return r
		}
		r2 := solveWith(dir, name, text, timeoutS, []string{"portfolio"})
		r2.timeS += r.timeS
		return r2
	}
	return solveWith(dir, name, text, timeoutS, only)
}

func solveWith(dir, name, text string, timeoutS int, only []string) solveResult {
	file := filepath.Join(dir, sanitizeFile(name)+".smt2")
	if err := os.WriteFile(file, []byte(text), 0644); err != nil {
		return solveResult{status: "error", output: err.Error()}
	}
	ctx, cancel := context.WithCancel(context.Background())
	defer cancel()
	type r struct{ b, st, out string }
	ch := make(chan r, len(backends))
	n := 0
	start := time.Now()
	bs := append(append([]backend{}, backends...), portfolio...)
	if len(only) == 1 && only[0] == "portfolio" {
		only = nil
	} else if len(only) == 0 {
		bs = backends
	}
	ch = make(chan r, len(bs))
	for _, b := range bs {
		if len(only) > 0 && !contains(only, b.name) {
			continue
		}
		n++
		go func(b backend) {
			st, out := runOne(ctx, b, file, timeoutS)
			ch <- r{b.name, st, out}
		}(b)
	}
	res := solveResult{status: "unknown", all: map[string]string{}}
	var outs []string
	for i := 0; i < n; i++ {
		x := <-ch
		res.all[x.b] = x.st
		if x.st == "unsat" || x.st == "sat" {
			res.status = x.st
			res.backend = x.b
			res.output = x.out
			res.timeS = time.Since(start).Seconds()
			cancel()
			return res
		}
		outs = append(outs, fmt.Sprintf("[%s] %s: %s", x.b, x.st, firstLines(x.out, 6)))
		if x.st == "timeout" && res.status == "unknown" {
			res.status = "timeout"
		}
	}
	allErr := true
	for _, st := range res.all {
		if st != "error" {
			allErr = false
		}
	}
	if allErr {
		res.status = "error"
	}
	res.timeS = time.Since(start).Seconds()
	res.output = strings.Join(outs, "\n")
	return res
}

func firstLines(s string, n int) string {
	ls := strings.Split(s, "\n")
	if len(ls) > n {
		ls = ls[:n]
	}
	return strings.Join(ls, "\n")
}

func contains(xs []string, x string) bool {
	for _, y := range xs {
		if x == y {
			return true
		}
	}
	return false
}

func sanitizeFile(s string) string {
	var b strings.Builder
	for _, r := range s {
		switch {
		case r >= 'a' && r <= 'z', r >= 'A' && r <= 'Z', r >= '0' && r <= '9', r == '.', r == '-', r == '_', r == '#', r == '@':
			b.WriteRune(r)
		default:
			b.WriteRune('_')
		}
	}
	x := b.String()
	if len(x) > 180 {
		x = x[:180]
	}
	return x
}

// parallel map with bounded workers
func parallelDo(n, workers int, f func(i int)) {
	var wg sync.WaitGroup
	sem := make(chan struct{}, workers)
	for i := 0; i < n; i++ {
		wg.Add(1)
		sem <- struct{}{}
		go func(i int) {
			defer wg.Done()
			defer func() { <-sem }()
			f(i)
		}(i)
	}
	wg.Wait()
}
