package main

import (
	"fmt"
	"sort"
	"go/token"
	"go/types"

	"golang.org/x/tools/go/ssa"
)

func (g *VCGen) makeMap(x *ssa.MakeMap) {
	mt := x.Type().Underlying().(*types.Map)
	heap, ms := g.so.mapHeapFor(mt)
	r := g.newRef()
	ks, vs := g.so.sortOf(mt.Key()), g.so.sortOf(mt.Elem())
	h := g.heapTerm(g.cur, heap)
	g.setHeap(g.cur, heap, fmt.Sprintf("(store %s %s (mk!%s ((as const (Array %s Bool)) false) ((as const (Array %s %s)) %s) 0))", h, r, ms, ks, ks, vs, g.so.zero(mt.Elem())))
	g.vals[x] = SpecVal{r, "Int", x.Type()}
}

func (g *VCGen) lookup(x *ssa.Lookup) {
	mt, ok := x.X.Type().Underlying().(*types.Map)
	if !ok {
		g.havocVal(x) // string index
		return
	}
	heap, ms := g.so.mapHeapFor(mt)
	m := g.val(x.X)
	k := g.val(x.Index)
	cell := fmt.Sprintf("(select %s %s)", g.heapTerm(g.cur, heap), m.T)
	present := fmt.Sprintf("(and (not (= %s 0)) (select (%s.dom %s) %s))", m.T, ms, cell, k.T)
	valT := fmt.Sprintf("(ite %s (select (%s.val %s) %s) %s)", present, ms, cell, k.T, g.so.zero(mt.Elem()))
	vs := g.so.sortOf(mt.Elem())
	if x.CommaOk {
		rv := g.freshConst(smtSym(x.Name())+"!v", vs)
		g.assume(fmt.Sprintf("(= %s %s)", rv, valT))
		okc := g.freshConst(smtSym(x.Name())+"!ok", "Bool")
		g.assume(fmt.Sprintf("(= %s %s)", okc, present))
		sv := SpecVal{rv, vs, mt.Elem()}
		g.rangeFact(sv)
		g.assumeHere(g.allocFact(rv, mt.Elem(), g.cur))
		g.tuples[x] = []SpecVal{sv, {okc, "Bool", types.Typ[types.Bool]}}
		return
	}
	sv := g.define(x, valT)
	g.assumeHere(g.allocFact(sv.T, mt.Elem(), g.cur))
}

func (g *VCGen) mapUpdate(x *ssa.MapUpdate) {
	mt := x.Map.Type().Underlying().(*types.Map)
	heap, ms := g.so.mapHeapFor(mt)
	m := g.val(x.Map)
	k := g.val(x.Key)
	v := g.val(x.Value)
	goal := fmt.Sprintf("(not (= %s 0))", m.T)
	g.oblige("nopanic.nilmap@"+x.Map.Name(), "nopanic", goal, "assignment to entry in nil map", x.Pos())
	g.assumeHere(goal)
	h := g.heapTerm(g.cur, heap)
	cell := fmt.Sprintf("(select %s %s)", h, m.T)
	g.setHeap(g.cur, heap, fmt.Sprintf("(store %s %s (mk!%s (store (%s.dom %s) %s true) (store (%s.val %s) %s %s) (+ (%s.len %s) (ite (select (%s.dom %s) %s) 0 1))))",
		h, m.T, ms, ms, cell, k.T, ms, cell, k.T, v.T, ms, cell, ms, cell, k.T))
}

func (g *VCGen) mapDelete(c *ssa.CallCommon) {
	mt := c.Args[0].Type().Underlying().(*types.Map)
	heap, ms := g.so.mapHeapFor(mt)
	m := g.val(c.Args[0])
	k := g.val(c.Args[1])
	h := g.heapTerm(g.cur, heap)
	cell := fmt.Sprintf("(select %s %s)", h, m.T)
	// delete on nil map is a no-op
	g.setHeap(g.cur, heap, fmt.Sprintf("(ite (= %s 0) %s (store %s %s (mk!%s (store (%s.dom %s) %s false) (%s.val %s) (- (%s.len %s) (ite (select (%s.dom %s) %s) 1 0)))))",
		m.T, h, h, m.T, ms, ms, cell, k.T, ms, cell, ms, cell, ms, cell, k.T))
}

// Range over a Go map: seen-set model. The iterator's ghost state (seen set) lives in a pseudo-heap so that loops havoc it.
func (g *VCGen) iterKeyStatic(v ssa.Value) string {
	r, ok := v.(*ssa.Range)
	if !ok {
		return ""
	}
	mt, ok := r.X.Type().Underlying().(*types.Map)
	if !ok {
		return ""
	}
	ks := g.so.sortOf(mt.Key())
	return g.so.heap("IT!"+smtSym(r.Name()), "(Array "+ks+" Bool)")
}

func (g *VCGen) rangeInstr(x *ssa.Range) {
	mt, ok := x.X.Type().Underlying().(*types.Map)
	if !ok {
		panic(unsupported("range over " + x.X.Type().String()))
	}
	key := g.iterKeyStatic(x)
	ks := g.so.sortOf(mt.Key())
	g.setHeap(g.cur, key, fmt.Sprintf("((as const (Array %s Bool)) false)", ks))
	g.vals[x] = SpecVal{"0", "Int", x.Type()}
}

func (g *VCGen) nextInstr(x *ssa.Next) {
	r, ok := x.Iter.(*ssa.Range)
	if !ok || x.IsString {
		panic(unsupported("next on non-map range"))
	}
	mt := r.X.Type().Underlying().(*types.Map)
	heap, ms := g.so.mapHeapFor(mt)
	key := g.iterKeyStatic(r)
	m := g.val(r.X)
	ks, vs := g.so.sortOf(mt.Key()), g.so.sortOf(mt.Elem())
	seen := g.heapTerm(g.cur, key)
	cell := fmt.Sprintf("(select %s %s)", g.heapTerm(g.cur, heap), m.T)
	dom := fmt.Sprintf("(%s.dom %s)", ms, cell)
	okc := g.freshConst(smtSym(x.Name())+"!ok", "Bool")
	k := g.freshConst(smtSym(x.Name())+"!k", ks)
	v := g.freshConst(smtSym(x.Name())+"!v", vs)
	g.assumeHere(fmt.Sprintf("(=> (= %s 0) (not %s))", m.T, okc))
	g.assumeHere(fmt.Sprintf("(=> %s (and (select %s %s) (not (select %s %s)) (= %s (select (%s.val %s) %s))))", okc, dom, k, seen, k, v, ms, cell, k))
	g.assumeHere(fmt.Sprintf("(=> (and (not %s) (not (= %s 0))) (forall ((x %s)) (! (=> (select %s x) (select %s x)) :pattern ((select %s x)))))", okc, m.T, ks, dom, seen, dom))
	g.setHeap(g.cur, key, fmt.Sprintf("(ite %s (store %s %s true) %s)", okc, seen, k, seen))
	kv := SpecVal{k, ks, mt.Key()}
	vv := SpecVal{v, vs, mt.Elem()}
	g.rangeFact(kv)
	g.rangeFact(vv)
	g.assumeHere(g.allocFact(k, mt.Key(), g.cur))
	g.assumeHere(g.allocFact(v, mt.Elem(), g.cur))
	g.tuples[x] = []SpecVal{{okc, "Bool", types.Typ[types.Bool]}, kv, vv}
	g.usedTrusted["range over a Go map visits each key present exactly once (seen-set model); terminates"] = true
}

// ---------------------------------------------------------------- not yet modelled concurrency primitives

func deferFlag(x *ssa.Defer) string {
	return fmt.Sprintf("IT!defer!b%d", x.Block().Index)
}

func (g *VCGen) deferInstr(x *ssa.Defer) {
	for _, li := range g.loopList {
		if li.blocks[x.Block()] {
			panic(unsupported("defer inside a loop"))
		}
	}
	g.deferred = append(g.deferred, x)
	// a defer statement that is not executed on every path: a ghost flag records whether it was reached
	flag := g.so.heap(deferFlag(x), "Bool")
	g.setHeap(g.cur, flag, "true")
}

// initDeferFlags: at function entry no defer statement has been executed
func (g *VCGen) initDeferFlags() {
	for _, b := range g.fn.Blocks {
		for _, in := range b.Instrs {
			if d, ok := in.(*ssa.Defer); ok {
				flag := g.so.heap(deferFlag(d), "Bool")
				g.setHeap(g.cur, flag, "false")
			}
		}
	}
}

func (g *VCGen) runDefers(x *ssa.RunDefers) {
	g.inRunDefers = true
	defer func() { g.inRunDefers = false }()
	for i := len(g.deferred) - 1; i >= 0; i-- {
		d := g.deferred[i]
		if !d.Block().Dominates(x.Block()) {
			if !blockReaches(d.Block(), x.Block()) {
				continue // this exit is not downstream of the defer statement
			}
			// conditional defer: the call runs exactly when the defer statement was executed
			flag := g.so.heap(deferFlag(d), "Bool")
			guard := g.heapTerm(g.cur, flag)
			pre := g.cur.clone()
			origPC := g.pathCond
			g.pathCond = and(origPC, guard)
			g.callInstr(d, nil)
			post := g.cur
			pcAfter := g.pathCond
			g.cur = g.mergeGuarded(guard, post, pre)
			g.pathCond = and(origPC, implies(guard, pcAfter))
			continue
		}
		g.callInstr(d, nil)
	}
}

// mergeGuarded: the state that equals a when guard holds and b otherwise
func (g *VCGen) mergeGuarded(guard string, a, b *State) *State {
	st := &State{heaps: map[string]string{}, epoch: a.epoch}
	names := map[string]bool{}
	if a.epoch != b.epoch {
		st.epoch = g.eng.nextEpoch()
		for h := range g.so.heaps {
			names[h] = true
		}
	}
	for h := range a.heaps {
		names[h] = true
	}
	for h := range b.heaps {
		names[h] = true
	}
	var hs []string
	for h := range names {
		hs = append(hs, h)
	}
	sort.Strings(hs)
	for _, h := range hs {
		ta, tb := g.heapTerm(a, h), g.heapTerm(b, h)
		if ta == tb {
			st.heaps[h] = ta
			continue
		}
		name := g.freshName(h + "@defer")
		g.declare(name, g.so.heaps[h])
		g.assume(fmt.Sprintf("(= %s (ite %s %s %s))", name, guard, ta, tb))
		st.heaps[h] = name
	}
	if a.nextRef == b.nextRef {
		st.nextRef = a.nextRef
	} else {
		name := g.freshConst("nextRef@defer", "Int")
		g.assume(fmt.Sprintf("(= %s (ite %s %s %s))", name, guard, a.nextRef, b.nextRef))
		st.nextRef = name
	}
	return st
}

func (g *VCGen) goInstr(x *ssa.Go)         { g.eng.concurrency.goInstr(g, x) }
func (g *VCGen) sendInstr(x *ssa.Send)     { g.eng.concurrency.send(g, x) }
func (g *VCGen) selectInstr(x *ssa.Select) { g.eng.concurrency.selectI(g, x) }
func (g *VCGen) makeChan(x *ssa.MakeChan)  { g.eng.concurrency.makeChan(g, x) }
func (g *VCGen) recvInstr(x *ssa.UnOp)     { g.eng.concurrency.recv(g, x) }
func (g *VCGen) closeChan(c *ssa.CallCommon, pos token.Pos) {
	g.eng.concurrency.closeChan(g, c, pos)
}

func (g *VCGen) makeClosure(x *ssa.MakeClosure) {
	g.closures[x] = x
	fn := x.Fn.(*ssa.Function)
	g.vals[x] = SpecVal{g.fnConst(fn), "Int", x.Type()}
}

func blockReaches(from, to *ssa.BasicBlock) bool {
	seen := map[*ssa.BasicBlock]bool{}
	stack := []*ssa.BasicBlock{from}
	for len(stack) > 0 {
		b := stack[len(stack)-1]
		stack = stack[:len(stack)-1]
		if b == to {
			return true
		}
		if seen[b] {
			continue
		}
		seen[b] = true
		stack = append(stack, b.Succs...)
	}
	return false
}
