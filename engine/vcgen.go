package main

import (
	"fmt"
	"go/constant"
	"go/token"
	"go/types"
	"sort"
	"strings"

	"golang.org/x/tools/go/ssa"
)

// SpecVal is a typed SMT term.
type SpecVal struct {
	T    string     // term
	Sort string     // SMT sort
	Go   types.Type // Go type if the term denotes a Go value (may be nil for pure spec values)
}

// Addr is a translator-level address (interior pointers never reach SMT).
type Addr struct {
	Kind string // "obj" (heap object of struct/box heap), "elem" (slice element), "global"
	Heap string
	Ref  string // object ref / slice base
	Idx  string // element index (absolute, off+i) for elem
	Path []pathStep
	Elem types.Type // Go type stored at this address
	Root types.Type // Go type of the heap cell (before Path)
	Imm  bool       // address inside an immutable object
}

type pathStep struct {
	sortName string // struct sort
	field    int
	st       *types.Struct
}

// State is the symbolic memory state: heap name -> SMT term.
type State struct {
	heaps   map[string]string
	nextRef string
	epoch   int // bumped when an open-world call havocs every heap: heaps not yet mentioned get a fresh base version
}

func (s *State) clone() *State {
	n := &State{heaps: map[string]string{}, nextRef: s.nextRef, epoch: s.epoch}
	for k, v := range s.heaps {
		n.heaps[k] = v
	}
	return n
}

type Obligation struct {
	Block   *ssa.BasicBlock
	Name    string
	Kind    string
	Guard   string // path condition
	Goal    string
	NAssert int // number of background assertions visible
	Pos     token.Position
	Text    string // source-level description (clause text)
	Func    string
}

type VCGen struct {
	pendingInlineArgs []ssa.Value // SSA arguments of the call being inlined (constants resolve its branches)
	inRunDefers bool
	panickingC  string
	lockState *State // state right after the (single) monitor lock acquisition of this function
	lockCount int
	beforeApplied map[string]bool // "name.k" of the before clauses that attached to at least one site
	eng      *Engine
	fn       *ssa.Function
	fc       *FuncContract
	so       *Sorts
	decls    []string
	asserts  []string
	obls     []Obligation
	vals     map[ssa.Value]SpecVal
	addrs    map[ssa.Value]*Addr
	tuples   map[ssa.Value][]SpecVal
	fresh    int
	entry    *State
	cur      *State
	pathCond string
	reach    map[*ssa.BasicBlock]string
	exitSt   map[*ssa.BasicBlock]*State
	exitPC   map[*ssa.BasicBlock]string
	edgeCond map[[2]int]string
	loops    map[*ssa.BasicBlock]*loopInfo // header -> info
	loopList []*loopInfo
	backEdge map[[2]int]bool
	debugRef map[string][]*ssa.DebugRef
	freshImm map[ssa.Value]bool
	iters    map[ssa.Value]*iterInfo
	closures map[ssa.Value]*ssa.MakeClosure
	specFnsDone bool
	specDecls   []string
	usedTrusted map[string]bool
	usedCallees map[string]bool
	panicAllowed string // caller's panic condition (pre-state), "" if none
	paramVals   map[string]SpecVal
	resultVals  []SpecVal
	deferred    []*ssa.Defer
	ghost       map[string]string
	warnings    []string
	retCount    int
	freshBases  map[string]bool
	inlineDepth int
	immTypesDone bool
	curBlock    *ssa.BasicBlock   // block being translated (nil: function entry / global facts)
	assertBlk   []*ssa.BasicBlock // origin block of each assumption
	reachCache  map[[2]int]bool
	imapBySort  map[string]*imapInfo
	ilistBySort map[string]*ilistInfo
}

type loopInfo struct {
	header  *ssa.BasicBlock
	blocks  map[*ssa.BasicBlock]bool
	index   int
	lc      *LoopContract
	decrAt  string // variant value at header
	hdrEnv  map[ssa.Value]SpecVal
	hdrState *State
}

type iterInfo struct {
	kind  string
	coll  SpecVal // the collection iterated
	seen  string  // heap-free ghost: current seen-set term var name is kept in state.heaps under key
	key   string  // ghost heap key
}

func (g *VCGen) freshName(prefix string) string {
	g.fresh++
	return fmt.Sprintf("%s!%d", prefix, g.fresh)
}

func (g *VCGen) declare(name, sort string) string {
	g.decls = append(g.decls, fmt.Sprintf("(declare-const %s %s)", name, sort))
	return name
}

func (g *VCGen) freshConst(prefix, sort string) string {
	return g.declare(g.freshName(prefix), sort)
}

func (g *VCGen) assume(f string) {
	g.asserts = append(g.asserts, f)
	g.assertBlk = append(g.assertBlk, g.curBlock)
}

// assumeHere: assumption valid on the current path.
func (g *VCGen) assumeHere(f string) {
	if g.pathCond == "true" {
		g.assume(f)
	} else {
		g.assume(fmt.Sprintf("(=> %s %s)", g.pathCond, f))
	}
}

func (g *VCGen) oblige(name, kind, goal, text string, pos token.Pos) {
	g.obls = append(g.obls, Obligation{Block: g.oblBlock(), Name: name, Kind: kind, Guard: g.pathCond, Goal: goal, NAssert: len(g.asserts),
		Pos: g.fn.Prog.Fset.Position(pos), Text: text, Func: g.fn.String()})
}

func and(xs ...string) string {
	var ys []string
	for _, x := range xs {
		if x == "true" || x == "" {
			continue
		}
		ys = append(ys, x)
	}
	switch len(ys) {
	case 0:
		return "true"
	case 1:
		return ys[0]
	}
	return "(and " + strings.Join(ys, " ") + ")"
}

func or(xs ...string) string {
	var ys []string
	for _, x := range xs {
		if x == "false" || x == "" {
			continue
		}
		ys = append(ys, x)
	}
	switch len(ys) {
	case 0:
		return "false"
	case 1:
		return ys[0]
	}
	return "(or " + strings.Join(ys, " ") + ")"
}

func not(x string) string {
	switch x {
	case "true":
		return "false"
	case "false":
		return "true"
	}
	return "(not " + x + ")"
}

func implies(a, b string) string {
	if a == "true" {
		return b
	}
	return "(=> " + a + " " + b + ")"
}

// ---------------------------------------------------------------- values

func (g *VCGen) constVal(c *ssa.Const) SpecVal {
	t := c.Type()
	sortName := g.so.sortOf(t)
	if c.Value == nil {
		return SpecVal{g.so.zero(t), sortName, t}
	}
	switch c.Value.Kind() {
	case constant.Bool:
		if constant.BoolVal(c.Value) {
			return SpecVal{"true", "Bool", t}
		}
		return SpecVal{"false", "Bool", t}
	case constant.Int:
		s := c.Value.ExactString()
		if strings.HasPrefix(s, "-") {
			s = "(- " + s[1:] + ")"
		}
		if sortName == "Real" {
			s = "(to_real " + s + ")"
		}
		return SpecVal{s, sortName, t}
	case constant.String:
		return SpecVal{g.so.strLit(constant.StringVal(c.Value)), "Str", t}
	case constant.Float:
		f, _ := constant.Float64Val(c.Value)
		s := fmt.Sprintf("%f", f)
		if f < 0 {
			s = fmt.Sprintf("(- %f)", -f)
		}
		return SpecVal{s, "Real", t}
	}
	panic(unsupported("constant " + c.String()))
}

func (g *VCGen) val(v ssa.Value) SpecVal {
	if sv, ok := g.vals[v]; ok {
		return sv
	}
	if ad, ok := g.addrs[v]; ok && ad.Kind == "obj" && len(ad.Path) == 0 {
		return SpecVal{ad.Ref, "Int", v.Type()}
	}
	switch x := v.(type) {
	case *ssa.Const:
		return g.constVal(x)
	case *ssa.Global:
		// address of a global: handled via addrOf
		panic(unsupported("global used as value: " + x.String()))
	case *ssa.Function:
		sv := SpecVal{g.fnConst(x), "Int", x.Type()}
		return sv
	case *ssa.Builtin:
		panic(unsupported("builtin as value " + x.Name()))
	}
	if _, isAddr := g.addrs[v]; isAddr {
		panic(unsupported(fmt.Sprintf("interior pointer %s (%s) escapes in %s", v.Name(), v.String(), g.fn.String())))
	}
	panic(unsupported(fmt.Sprintf("value %s (%T %s) not translated", v.Name(), v, v.String())))
}

func (g *VCGen) fnConst(f *ssa.Function) string {
	name := "fn!" + smtSym(f.String())
	if !g.so.done[name] {
		g.so.done[name] = true
		g.decls = append(g.decls, fmt.Sprintf("(declare-const %s Int)", name))
		g.assume(fmt.Sprintf("(> %s 0)", name))
	}
	return name
}

func (g *VCGen) define(v ssa.Value, term string) SpecVal {
	t := v.Type()
	sortName := g.so.sortOf(t)
	name := g.valName(v)
	g.declare(name, sortName)
	g.assume(fmt.Sprintf("(= %s %s)", name, term))
	sv := SpecVal{name, sortName, t}
	g.vals[v] = sv
	g.rangeFact(sv)
	return sv
}

func (g *VCGen) valName(v ssa.Value) string {
	return smtSym(v.Name()) + "@" + fmt.Sprint(len(g.vals)+len(g.addrs))
}

// havocVal declares an unconstrained constant for v.
func (g *VCGen) havocVal(v ssa.Value) SpecVal {
	t := v.Type()
	sortName := g.so.sortOf(t)
	name := g.valName(v)
	g.declare(name, sortName)
	sv := SpecVal{name, sortName, t}
	g.vals[v] = sv
	g.rangeFact(sv)
	return sv
}

func (g *VCGen) rangeFact(sv SpecVal) {
	if sv.Go == nil {
		return
	}
	if f := g.typeFact(sv.T, sv.Go); f != "true" {
		g.assume(f)
	}
}

// typeFact: the invariant every Go value of type t satisfies (integer ranges, slice header sanity).
func (g *VCGen) typeFact(term string, t types.Type) string {
	if lo, hi, ok := g.so.intRange(t); ok {
		return fmt.Sprintf("(and (<= %s %s) (<= %s %s))", lo, term, term, hi)
	}
	switch t.Underlying().(type) {
	case *types.Slice:
		bound := ""
		if st, ok := t.Underlying().(*types.Slice); ok && !zeroSized(st.Elem()) {
			// the Go runtime cannot allocate more than 2^48 bytes: non-empty elements bound the capacity
			bound = fmt.Sprintf(" (<= (+ (s.off %s) (s.cap %s)) 281474976710656)", term, term)
		}
		return fmt.Sprintf("(and (<= 0 (s.off %s)) (<= 0 (s.len %s)) (<= (s.len %s) (s.cap %s)) (>= (s.base %s) 0) (=> (= (s.base %s) 0) (= (s.cap %s) 0))%s)", term, term, term, term, term, term, term, bound)
	case *types.Map, *types.Chan:
		return fmt.Sprintf("(>= %s 0)", term)
	case *types.Interface:
		extra := ""
		if n, ok := t.(*types.Named); ok && n.Obj().Pkg() != nil && g.eng.contracts.ClosedIfaces[n.Obj().Pkg().Path()+"."+n.Obj().Name()] {
			// closed interface: values only come from the package's own conversions, which convert non-nil pointers (checked at each MakeInterface)
			extra = fmt.Sprintf(" (=> (not (= (if.tag %s) 0)) (not (= (if.ref %s) 0)))", term, term)
		}
		return fmt.Sprintf("(and (>= (if.tag %s) 0) (=> (= (if.tag %s) 0) (= (if.ref %s) 0))%s)", term, term, term, extra)
	}
	return g.specialFact(term, t)
}

func zeroSized(t types.Type) bool {
	switch u := t.Underlying().(type) {
	case *types.Struct:
		for i := 0; i < u.NumFields(); i++ {
			if !zeroSized(u.Field(i).Type()) {
				return false
			}
		}
		return true
	case *types.Array:
		return u.Len() == 0 || zeroSized(u.Elem())
	}
	return false
}

// allocatedFact: refs inside the value are allocated (< nextRef)
func (g *VCGen) allocFact(term string, t types.Type, st *State) string {
	switch u := t.Underlying().(type) {
	case *types.Pointer, *types.Map, *types.Chan:
		if g.so.sortOf(t) == "Int" {
			return fmt.Sprintf("(alive %s %s)", term, st.nextRef)
		}
	case *types.Slice:
		return fmt.Sprintf("(< (s.base %s) %s)", term, st.nextRef)
	case *types.Interface:
		return fmt.Sprintf("(alive (if.ref %s) %s)", term, st.nextRef)
	case *types.Struct:
		sn := g.so.sortOf(t)
		if _, ok := g.so.structs[sn]; !ok {
			return "true"
		}
		var parts []string
		for i := 0; i < u.NumFields(); i++ {
			f := g.allocFact(fmt.Sprintf("(%s %s)", g.so.fieldSel(sn, u.Field(i).Name(), i), term), u.Field(i).Type(), st)
			parts = append(parts, f)
		}
		return and(parts...)
	}
	return "true"
}

// ---------------------------------------------------------------- addresses

func (g *VCGen) addrOf(v ssa.Value) *Addr {
	if a, ok := g.addrs[v]; ok {
		return a
	}
	switch x := v.(type) {
	case *ssa.Global:
		t := x.Type().(*types.Pointer).Elem()
		name := "G!" + smtSym(x.Pkg.Pkg.Name()+"."+x.Name())
		heap := g.so.heap(name, g.so.sortOf(t))
		return &Addr{Kind: "global", Heap: heap, Elem: t, Root: t}
	}
	// a pointer value: whole-object address
	sv := g.val(v)
	pt, ok := v.Type().Underlying().(*types.Pointer)
	if !ok {
		panic(unsupported("address of non-pointer " + v.String()))
	}
	return g.objAddr(sv.T, pt.Elem())
}

func (g *VCGen) objAddr(ref string, elem types.Type) *Addr {
	heap := g.so.heapFor(elem)
	return &Addr{Kind: "obj", Heap: heap, Ref: ref, Elem: elem, Root: elem, Imm: g.isImmutable(elem)}
}

func (g *VCGen) isImmutable(t types.Type) bool {
	if n, ok := t.(*types.Named); ok && n.Obj().Pkg() != nil {
		return g.eng.contracts.Immut[n.Obj().Pkg().Path()+"."+n.Obj().Name()]
	}
	return false
}

func (g *VCGen) heapTerm(st *State, heap string) string {
	if t, ok := st.heaps[heap]; ok {
		return t
	}
	// first use: entry version is the declared heap constant (per havoc epoch; immutable heaps have a single version)
	ep := st.epoch
	if g.immutableHeap(heap) {
		ep = 0
	}
	base := fmt.Sprintf("%s@%d", heap, ep)
	if !g.so.done["heapdecl:"+base] {
		g.so.done["heapdecl:"+base] = true
		g.decls = append(g.decls, fmt.Sprintf("(declare-const %s %s)", base, g.so.heaps[heap]))
	}
	return base
}

// loadCell reads the root cell of an address.
func (g *VCGen) loadCell(st *State, a *Addr) string {
	h := g.heapTerm(st, a.Heap)
	switch a.Kind {
	case "obj":
		return fmt.Sprintf("(select %s %s)", h, a.Ref)
	case "elem":
		return fmt.Sprintf("(select (select %s %s) %s)", h, a.Ref, a.Idx)
	case "global":
		return h
	}
	panic("bad addr kind")
}

func (g *VCGen) load(st *State, a *Addr) string {
	t := g.loadCell(st, a)
	for _, p := range a.Path {
		t = fmt.Sprintf("(%s %s)", g.so.fieldSel(p.sortName, p.st.Field(p.field).Name(), p.field), t)
	}
	return t
}

func (g *VCGen) updatePath(cell string, path []pathStep, v string) string {
	if len(path) == 0 {
		return v
	}
	p := path[0]
	var parts []string
	for i := 0; i < p.st.NumFields(); i++ {
		sel := fmt.Sprintf("(%s %s)", g.so.fieldSel(p.sortName, p.st.Field(i).Name(), i), cell)
		if i == p.field {
			parts = append(parts, g.updatePath(sel, path[1:], v))
		} else {
			parts = append(parts, sel)
		}
	}
	return "(mk!" + p.sortName + " " + strings.Join(parts, " ") + ")"
}

func (g *VCGen) setHeap(st *State, heap, term string) {
	if g.immutableHeap(heap) {
		panic(unsupported("update of heap " + heap + ", which is declared immutable"))
	}
	name := g.freshName(heap)
	g.declare(name, g.so.heaps[heap])
	g.assume(fmt.Sprintf("(= %s %s)", name, term))
	st.heaps[heap] = name
}

func (g *VCGen) store(st *State, a *Addr, v string) {
	if a.Kind == "elem" && g.immutableHeap(a.Heap) && !g.freshBases[a.Ref] {
		g.oblige("immutableheap.store@"+a.Heap, "writeonce", "false", "store into a slice whose element heap is declared immutable", token.NoPos)
	}
	h := g.heapTerm(st, a.Heap)
	cell := g.loadCell(st, a)
	nv := g.updatePath(cell, a.Path, v)
	switch a.Kind {
	case "obj":
		g.setHeap(st, a.Heap, fmt.Sprintf("(store %s %s %s)", h, a.Ref, nv))
	case "elem":
		g.setHeap(st, a.Heap, fmt.Sprintf("(store %s %s (store (select %s %s) %s %s))", h, a.Ref, h, a.Ref, a.Idx, nv))
	case "global":
		g.setHeap(st, a.Heap, nv)
	}
}

// ---------------------------------------------------------------- CFG

func (g *VCGen) analyzeLoops() {
	fn := g.fn
	g.backEdge = map[[2]int]bool{}
	g.loops = map[*ssa.BasicBlock]*loopInfo{}
	for _, b := range fn.Blocks {
		for _, s := range b.Succs {
			if s.Dominates(b) {
				g.backEdge[[2]int{b.Index, s.Index}] = true
				li := g.loops[s]
				if li == nil {
					li = &loopInfo{header: s, blocks: map[*ssa.BasicBlock]bool{s: true}}
					g.loops[s] = li
				}
				// natural loop: all blocks that reach b without passing through s
				var stack []*ssa.BasicBlock
				if !li.blocks[b] {
					li.blocks[b] = true
					stack = append(stack, b)
				}
				for len(stack) > 0 {
					x := stack[len(stack)-1]
					stack = stack[:len(stack)-1]
					for _, p := range x.Preds {
						if !li.blocks[p] {
							li.blocks[p] = true
							stack = append(stack, p)
						}
					}
				}
			}
		}
	}
	var hs []*ssa.BasicBlock
	for h := range g.loops {
		hs = append(hs, h)
	}
	// number loops in source order of the header's first instruction position; fall back to block index
	sort.Slice(hs, func(i, j int) bool {
		pi, pj := g.loopPos(hs[i]), g.loopPos(hs[j])
		if pi != pj {
			return pi < pj
		}
		return hs[i].Index < hs[j].Index
	})
	for i, h := range hs {
		g.loops[h].index = i
		if g.fc != nil {
			g.loops[h].lc = g.fc.Loops[i]
		}
		g.loopList = append(g.loopList, g.loops[h])
	}
}

func (g *VCGen) loopPos(h *ssa.BasicBlock) token.Pos {
	// position of the loop: smallest valid position among instructions of blocks in the loop
	best := token.Pos(1 << 60)
	for b := range g.loops[h].blocks {
		for _, in := range b.Instrs {
			if _, isDbg := in.(*ssa.DebugRef); isDbg {
				continue
			}
			if _, isPhi := in.(*ssa.Phi); isPhi {
				continue // a phi carries the position of the variable's declaration, which may precede the loop
			}
			if p := in.Pos(); p.IsValid() && p < best {
				best = p
			}
		}
	}
	return best
}

// topological order ignoring back edges
func (g *VCGen) topoOrder() []*ssa.BasicBlock {
	fn := g.fn
	indeg := map[*ssa.BasicBlock]int{}
	for _, b := range fn.Blocks {
		for _, p := range b.Preds {
			if !g.backEdge[[2]int{p.Index, b.Index}] {
				indeg[b]++
			}
		}
	}
	var order []*ssa.BasicBlock
	var ready []*ssa.BasicBlock
	for _, b := range fn.Blocks {
		if indeg[b] == 0 && (b.Index == 0 || b == fn.Recover) {
			ready = append(ready, b)
		}
	}
	seen := map[*ssa.BasicBlock]bool{}
	for len(ready) > 0 {
		sort.Slice(ready, func(i, j int) bool { return ready[i].Index < ready[j].Index })
		b := ready[0]
		ready = ready[1:]
		if seen[b] {
			continue
		}
		seen[b] = true
		order = append(order, b)
		for _, s := range b.Succs {
			if g.backEdge[[2]int{b.Index, s.Index}] {
				continue
			}
			indeg[s]--
			if indeg[s] == 0 {
				ready = append(ready, s)
			}
		}
	}
	return order
}

func (g *VCGen) oblBlock() *ssa.BasicBlock { return g.curBlock }

// blockReachesDAG: is there a path from a to b in the CFG with back edges removed (a == b counts)
func (g *VCGen) blockReachesDAG(a, b *ssa.BasicBlock) bool {
	if a == b {
		return true
	}
	if g.reachCache == nil {
		g.reachCache = map[[2]int]bool{}
	}
	key := [2]int{a.Index, b.Index}
	if r, ok := g.reachCache[key]; ok {
		return r
	}
	g.reachCache[key] = false
	res := false
	for _, s := range a.Succs {
		if g.backEdge[[2]int{a.Index, s.Index}] {
			continue
		}
		if g.blockReachesDAG(s, b) {
			res = true
			break
		}
	}
	g.reachCache[key] = res
	return res
}

// relevantAsserts: assumptions visible to an obligation: those emitted before it whose origin block lies on some
// path to the obligation's block (assumptions of other branches / of the bodies of loops already left are dropped:
// they are guarded by reachability predicates that are false on every path to the obligation).
func (g *VCGen) relevantAsserts(o Obligation) []string {
	var out []string
	for i := 0; i < o.NAssert && i < len(g.asserts); i++ {
		var ab *ssa.BasicBlock
		if i < len(g.assertBlk) {
			ab = g.assertBlk[i]
		}
		if ab == nil || o.Block == nil || g.blockReachesDAG(ab, o.Block) {
			out = append(out, g.asserts[i])
		}
	}
	return out
}

// panickingConst: "this activation is unwinding because of a panic" (free in the function's own VC: a deferred
// closure is verified for both cases)
func (g *VCGen) panickingConst() string {
	if g.panickingC == "" {
		g.panickingC = g.declare("$panicking", "Bool")
	}
	return g.panickingC
}
