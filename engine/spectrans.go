package main

import (
	"sort"
	"fmt"
	"go/types"
	"strings"

	"golang.org/x/tools/go/ssa"
)

type SpecEnv struct {
	g       *VCGen
	vars    map[string]SpecVal
	cur     *State
	old     *State
	pkg     *types.Package
	results []SpecVal
	resNames []string
	locals  func(name string) (SpecVal, bool)
	inSpecFn bool
	noUnfold bool
	hdr      *SpecEnv
	bound    map[string]bool // names bound by quantifiers (shadow locals)
	usedHeaps *[]string // when translating a spec function body: heaps read
	atlockState *State  // what atlock() denotes when a callee's postcondition is assumed at a call site
	panicking   string  // what panicking() denotes ("" = this activation's own flag)
}

type specErr string

func (env *SpecEnv) fail(f string, a ...interface{}) {
	panic(specErr(fmt.Sprintf(f, a...)))
}

func (env *SpecEnv) with(vars map[string]SpecVal) *SpecEnv {
	n := *env
	n.vars = map[string]SpecVal{}
	for k, v := range env.vars {
		n.vars[k] = v
	}
	n.bound = map[string]bool{}
	for k := range env.bound {
		n.bound[k] = true
	}
	for k, v := range vars {
		n.vars[k] = v
		n.bound[k] = true
	}
	return &n
}

// resolveSort maps a type name written in a spec to an SMT sort (and Go type if any).
func (env *SpecEnv) resolveSort(typ string) (string, types.Type) {
	g := env.g
	switch typ {
	case "string":
		return "Str", types.Typ[types.String]
	case "int", "Int", "uint", "int32", "uint32", "int64":
		return "Int", nil
	case "bool", "Bool":
		return "Bool", nil
	case "Str":
		return "Str", nil
	case "Slice":
		return "Slice", nil
	case "Iface":
		return "Iface", nil
	}
	if al, ok := g.eng.contracts.SortAliases[typ]; ok {
		gt := g.eng.evalGoType(al)
		return g.so.sortOf(gt), gt
	}
	if strings.HasPrefix(typ, "[]") {
		_, et := env.resolveSort(typ[2:])
		if et == nil {
			env.fail("slice of non-Go type %s", typ)
		}
		st := types.NewSlice(et)
		return g.so.sortOf(st), st
	}
	if strings.HasPrefix(typ, "*") {
		_, et := env.resolveSort(typ[1:])
		if et == nil {
			env.fail("pointer to non-Go type %s", typ)
		}
		pt := types.NewPointer(et)
		return g.so.sortOf(pt), pt
	}
	if strings.HasPrefix(typ, "[") {
		i := strings.Index(typ, "]")
		ks, _ := env.resolveSort(typ[1:i])
		vs, vt := env.resolveSort(typ[i+1:])
		if ks == "Int" && vt != nil {
			return "(Array " + ks + " " + vs + ")", types.NewArray(vt, 0)
		}
		return "(Array " + ks + " " + vs + ")", nil
	}
	if strings.HasPrefix(typ, "set[") && strings.HasSuffix(typ, "]") {
		ks, _ := env.resolveSort(typ[4 : len(typ)-1])
		return "(Array " + ks + " Bool)", nil
	}
	if i := strings.Index(typ, "."); i > 0 && env.pkg != nil {
		// qualified: pkgname.Type
		for _, imp := range env.pkg.Imports() {
			if imp.Name() == typ[:i] {
				if o := imp.Scope().Lookup(typ[i+1:]); o != nil {
					if tn, ok := o.(*types.TypeName); ok {
						return g.so.sortOf(tn.Type()), tn.Type()
					}
				}
			}
		}
	}
	if env.pkg != nil {
		if o := env.pkg.Scope().Lookup(typ); o != nil {
			if tn, ok := o.(*types.TypeName); ok {
				return g.so.sortOf(tn.Type()), tn.Type()
			}
		}
	}
	// raw SMT sort (declared in prelude)
	return typ, nil
}

func (env *SpecEnv) heapT(st *State, heap string) string {
	if env.usedHeaps != nil {
		found := false
		for _, h := range *env.usedHeaps {
			if h == heap {
				found = true
			}
		}
		if !found {
			*env.usedHeaps = append(*env.usedHeaps, heap)
		}
		return "h$" + heap
	}
	return env.g.heapTerm(st, heap)
}

func (env *SpecEnv) boolT(e Expr) string {
	v := env.tr(e)
	if v.Sort != "Bool" {
		env.fail("expected Bool, got %s for %v", v.Sort, e)
	}
	return v.T
}

// goalT translates a formula that is going to be proved (never assumed): universal quantifiers in
// positive position are replaced by fresh constants, and non-recursive spec predicates are unfolded, so
// that the solvers do not have to skolemise under definitions.
func (env *SpecEnv) goalT(e Expr) string {
	g := env.g
	switch x := e.(type) {
	case EQuant:
		if x.Forall {
			vars := map[string]SpecVal{}
			for _, b := range x.Vars {
				s, gt := env.resolveSort(b.Type)
				name := g.freshConst("sk$"+b.Name, s)
				vars[b.Name] = SpecVal{name, s, gt}
			}
			return env.with(vars).goalT(x.Body)
		}
	case EBin:
		switch x.Op {
		case "&&":
			return and(env.goalT(x.L), env.goalT(x.R))
		case "==>":
			return "(=> " + env.boolT(x.L) + " " + env.goalT(x.R) + ")"
		}
	case ECall:
		if sf := g.eng.specFn(x.Fn); sf != nil && sf.Body != nil && !sf.Rec && env.usedHeaps == nil && len(x.Args) == len(sf.Params) {
			inf := g.specFnInfo(sf)
			if inf.retSort == "Bool" {
				vars := map[string]SpecVal{}
				for i, a := range x.Args {
					v := env.tr(a)
					if v.Sort == "Nil" {
						v = SpecVal{env.nilOf(SpecVal{Sort: inf.paramSorts[i]}), inf.paramSorts[i], nil}
					}
					if v.Sort != inf.paramSorts[i] {
						env.fail("%s arg %d: expected %s got %s", x.Fn, i, inf.paramSorts[i], v.Sort)
					}
					_, gt := env.resolveSortIn(sf, sf.Params[i].Type)
					vars[sf.Params[i].Name] = SpecVal{v.T, v.Sort, gt}
				}
				n := *env
				n.vars = vars
				n.pkg = g.eng.typesPkg(sf.Pkg)
				n.locals = nil
				n.results = nil
				n.resNames = nil
				return n.goalT(sf.Body.E)
			}
		}
	}
	return env.boolT(e)
}

func (env *SpecEnv) resolveSortIn(sf *SpecFn, typ string) (string, types.Type) {
	n := *env
	n.pkg = env.g.eng.typesPkg(sf.Pkg)
	return n.resolveSort(typ)
}

func (env *SpecEnv) tr(e Expr) SpecVal {
	g := env.g
	switch x := e.(type) {
	case EInt:
		return SpecVal{x.V, "Int", nil}
	case EBool:
		if x.V {
			return SpecVal{"true", "Bool", nil}
		}
		return SpecVal{"false", "Bool", nil}
	case EStr:
		return SpecVal{g.so.strLit(x.V), "Str", nil}
	case EIdent:
		return env.ident(x.Name)
	case EUn:
		v := env.tr(x.X)
		switch x.Op {
		case "!":
			if v.Sort != "Bool" {
				env.fail("! on %s", v.Sort)
			}
			return SpecVal{not(v.T), "Bool", nil}
		case "-":
			return SpecVal{"(- " + v.T + ")", "Int", nil}
		}
	case EBin:
		return env.bin(x)
	case ECall:
		return env.call(x)
	case ESel:
		return env.sel(x)
	case EIdx:
		return env.idx(x)
	case ESliceE:
		v := env.tr(x.X)
		if v.Sort != "Slice" {
			env.fail("slicing non-slice")
		}
		lo := "0"
		if x.Lo != nil {
			lo = env.tr(x.Lo).T
		}
		hi := fmt.Sprintf("(s.len %s)", v.T)
		if x.Hi != nil {
			hi = env.tr(x.Hi).T
		}
		return SpecVal{fmt.Sprintf("(mkSlice (s.base %s) (+ (s.off %s) %s) (- %s %s) (- (s.cap %s) %s))", v.T, v.T, lo, hi, lo, v.T, lo), "Slice", v.Go}
	case EQuant:
		vars := map[string]SpecVal{}
		var bs []string
		var facts []string
		for _, b := range x.Vars {
			s, gt := env.resolveSort(b.Type)
			name := "q$" + b.Name
			vars[b.Name] = SpecVal{name, s, gt}
			bs = append(bs, fmt.Sprintf("(%s %s)", name, s))
			_ = facts
		}
		benv := env.with(vars)
		body := benv.boolT(x.Body)
		q := "exists"
		if x.Forall {
			q = "forall"
		}
		if len(x.Triggers) > 0 {
			pat := ""
			save := benv.noUnfold
			benv.noUnfold = true
			for _, mp := range x.Triggers {
				var ps []string
				for _, p := range mp {
					ps = append(ps, benv.tr(p).T)
				}
				pat += " :pattern (" + strings.Join(ps, " ") + ")"
			}
			benv.noUnfold = save
			return SpecVal{fmt.Sprintf("(%s (%s) (! %s%s))", q, strings.Join(bs, " "), body, pat), "Bool", nil}
		}
		return SpecVal{fmt.Sprintf("(%s (%s) %s)", q, strings.Join(bs, " "), body), "Bool", nil}
	}
	env.fail("cannot translate %#v", e)
	return SpecVal{}
}

func (env *SpecEnv) ident(name string) SpecVal {
	g := env.g
	if env.locals != nil {
		if _, bound := env.bound[name]; !bound {
			if v, ok := env.locals(name); ok {
				return v
			}
		}
	}
	if v, ok := env.vars[name]; ok {
		return v
	}
	if name == "result" && len(env.results) > 0 {
		return env.results[0]
	}
	if strings.HasPrefix(name, "result") && len(name) == 7 {
		i := int(name[6] - '0')
		if i < len(env.results) {
			return env.results[i]
		}
	}
	for i, n := range env.resNames {
		if n == name && i < len(env.results) {
			return env.results[i]
		}
	}
	if name == "nil" {
		return SpecVal{"nil", "Nil", nil}
	}
	if env.locals != nil {
		if v, ok := env.locals(name); ok {
			return v
		}
	}
	if v, ok := g.ghostVal(env.cur, name); ok {
		return v
	}
	// 0-ary spec function
	if sf := g.eng.specFn(name); sf != nil && len(sf.Params) == 0 {
		return env.call(ECall{name, nil})
	}
	// package-level variable
	if env.pkg != nil {
		if o := env.pkg.Scope().Lookup(name); o != nil {
			switch ov := o.(type) {
			case *types.Var:
				heap := g.so.heap("G!"+smtSym(env.pkg.Name()+"."+name), g.so.sortOf(ov.Type()))
				return SpecVal{env.heapT(env.cur, heap), g.so.sortOf(ov.Type()), ov.Type()}
			case *types.Const:
				c := ssa.NewConst(ov.Val(), ov.Type())
				return g.constVal(c)
			}
		}
	}
	env.fail("unknown identifier %q", name)
	return SpecVal{}
}

func (env *SpecEnv) nilOf(v SpecVal) string {
	switch v.Sort {
	case "Int":
		return "0"
	case "Slice":
		return "nilSlice"
	case "Iface":
		return "nilIface"
	}
	if z, ok := specialZero[v.Sort]; ok {
		return z
	}
	env.fail("nil compared with sort %s", v.Sort)
	return ""
}

func (env *SpecEnv) bin(x EBin) SpecVal {
	switch x.Op {
	case "&&", "||", "==>", "<==>":
		l, r := env.boolT(x.L), env.boolT(x.R)
		switch x.Op {
		case "&&":
			return SpecVal{and(l, r), "Bool", nil}
		case "||":
			return SpecVal{or(l, r), "Bool", nil}
		case "==>":
			return SpecVal{"(=> " + l + " " + r + ")", "Bool", nil}
		default:
			return SpecVal{"(= " + l + " " + r + ")", "Bool", nil}
		}
	}
	l, r := env.tr(x.L), env.tr(x.R)
	switch x.Op {
	case "==", "!=":
		if l.Sort == "Nil" && r.Sort == "Nil" {
			env.fail("nil == nil")
		}
		if l.Sort == "Nil" {
			l = SpecVal{env.nilOf(r), r.Sort, nil}
		}
		if r.Sort == "Nil" {
			r = SpecVal{env.nilOf(l), l.Sort, nil}
		}
		if l.Sort != r.Sort {
			env.fail("comparing %s with %s in %v", l.Sort, r.Sort, x)
		}
		t := "(= " + l.T + " " + r.T + ")"
		if l.Sort == "Slice" && (r.T == "nilSlice" || l.T == "nilSlice") {
			o := l.T
			if l.T == "nilSlice" {
				o = r.T
			}
			t = "(= (s.base " + o + ") 0)"
		}
		if x.Op == "!=" {
			t = not(t)
		}
		return SpecVal{t, "Bool", nil}
	case "<", "<=", ">", ">=":
		if l.Sort != "Int" || r.Sort != "Int" {
			env.fail("ordering on %s,%s", l.Sort, r.Sort)
		}
		return SpecVal{"(" + x.Op + " " + l.T + " " + r.T + ")", "Bool", nil}
	case "+", "-", "*":
		if l.Sort != "Int" || r.Sort != "Int" {
			env.fail("arith on %s,%s in %v", l.Sort, r.Sort, x)
		}
		if x.Op == "*" {
			return SpecVal{mulTerm(l.T, r.T), "Int", nil}
		}
		return SpecVal{"(" + x.Op + " " + l.T + " " + r.T + ")", "Int", nil}
	case "div", "mod":
		return SpecVal{"(" + x.Op + " " + l.T + " " + r.T + ")", "Int", nil}
	case "/":
		return SpecVal{"(tdiv " + l.T + " " + r.T + ")", "Int", nil}
	case "%":
		return SpecVal{"(tmod " + l.T + " " + r.T + ")", "Int", nil}
	case "in":
		if !strings.HasPrefix(r.Sort, "(Array ") {
			env.fail("'in' needs a set, got %s", r.Sort)
		}
		return SpecVal{"(select " + r.T + " " + l.T + ")", "Bool", nil}
	}
	env.fail("bad operator %s", x.Op)
	return SpecVal{}
}

func isNumLit(t string) bool {
	if t == "" {
		return false
	}
	if strings.HasPrefix(t, "(- ") && strings.HasSuffix(t, ")") {
		t = t[3 : len(t)-1]
	}
	for _, r := range t {
		if r < '0' || r > '9' {
			return false
		}
	}
	return true
}

// mulTerm: products of two non-literal terms use the symbol mul, which is uninterpreted in function VCs
// (keeping them linear) and defined as * in lemma VCs.
func mulTerm(a, b string) string {
	if isNumLit(a) || isNumLit(b) {
		return "(* " + a + " " + b + ")"
	}
	return "(mul " + a + " " + b + ")"
}

func arraySorts(s string) (k, v string, ok bool) {
	if !strings.HasPrefix(s, "(Array ") {
		return
	}
	inner := s[len("(Array ") : len(s)-1]
	// split first sort
	depth := 0
	for i, r := range inner {
		switch r {
		case '(':
			depth++
		case ')':
			depth--
		case ' ':
			if depth == 0 {
				return inner[:i], inner[i+1:], true
			}
		}
	}
	return
}

func (env *SpecEnv) sel(x ESel) SpecVal {
	g := env.g
	// pkg.Name: a package-level variable or constant of an imported package
	if id, ok := x.X.(EIdent); ok && env.pkg != nil {
		if _, isVar := env.vars[id.Name]; !isVar {
			for _, imp := range env.pkg.Imports() {
				if imp.Name() != id.Name {
					continue
				}
				if o := imp.Scope().Lookup(x.Field); o != nil {
					switch ov := o.(type) {
					case *types.Var:
						heap := g.so.heap("G!"+smtSym(imp.Name()+"."+x.Field), g.so.sortOf(ov.Type()))
						return SpecVal{env.heapT(env.cur, heap), g.so.sortOf(ov.Type()), ov.Type()}
					case *types.Const:
						return g.constVal(ssa.NewConst(ov.Val(), ov.Type()))
					}
				}
			}
		}
	}
	v := env.tr(x.X)
	// pseudo-fields
	if v.Sort == "Iface" {
		switch x.Field {
		case "tag":
			return SpecVal{"(if.tag " + v.T + ")", "Int", nil}
		case "ref":
			return SpecVal{"(if.ref " + v.T + ")", "Int", nil}
		}
	}
	if v.Go == nil {
		// datatype accessor on a raw sort: Sort.field
		return env.rawAccessor(v, x.Field)
	}
	t := v.Go
	term := v.T
	ptrBase := ""
	// a captured variable (free variable of a closure) is a pointer to the variable's cell: read through it
	for {
		pt, ok := t.Underlying().(*types.Pointer)
		if !ok {
			break
		}
		if _, inner := pt.Elem().Underlying().(*types.Pointer); !inner {
			if _, innerStruct := pt.Elem().Underlying().(*types.Struct); innerStruct {
				break
			}
			break
		}
		heap := g.so.heapFor(pt.Elem())
		term = fmt.Sprintf("(select %s %s)", env.heapT(env.cur, heap), term)
		t = pt.Elem()
		v = SpecVal{term, "Int", t}
	}
	if pt, ok := t.Underlying().(*types.Pointer); ok {
		ptrBase = v.T
		heap := g.so.heapFor(pt.Elem())
		term = fmt.Sprintf("(select %s %s)", env.heapT(env.cur, heap), term)
		t = pt.Elem()
	}
	st, ok := t.Underlying().(*types.Struct)
	if !ok {
		env.fail("field %s of non-struct %s", x.Field, t)
	}
	sn := g.so.sortOf(t)
	// find field, looking through embedded structs
	path := findField(st, x.Field)
	if path == nil {
		env.fail("no field %s in %s", x.Field, t)
	}
	cur := t
	for pi, idx := range path {
		cst := cur.Underlying().(*types.Struct)
		sn = g.so.sortOf(cur)
		f := cst.Field(idx)
		if pi == 0 && ptrBase != "" && g.eng.isOutOfLine(cur, cst, idx) {
			// out-of-line field: its own heap cell owned by the enclosing object
			heap := g.so.heapFor(f.Type())
			term = fmt.Sprintf("(select %s (fld %s %d))", env.heapT(env.cur, heap), ptrBase, idx)
			cur = f.Type()
			continue
		}
		term = fmt.Sprintf("(%s %s)", g.so.fieldSel(sn, f.Name(), idx), term)
		cur = f.Type()
	}
	return SpecVal{term, g.so.sortOf(cur), cur}
}

func findField(st *types.Struct, name string) []int {
	for i := 0; i < st.NumFields(); i++ {
		if st.Field(i).Name() == name {
			return []int{i}
		}
	}
	for i := 0; i < st.NumFields(); i++ {
		f := st.Field(i)
		if f.Embedded() {
			if est, ok := f.Type().Underlying().(*types.Struct); ok {
				if p := findField(est, name); p != nil {
					return append([]int{i}, p...)
				}
			}
		}
	}
	return nil
}

func (env *SpecEnv) rawAccessor(v SpecVal, field string) SpecVal {
	g := env.g
	if acc, ok := g.eng.rawAccessors[v.Sort+"."+field]; ok {
		return SpecVal{"(" + acc.fn + " " + v.T + ")", acc.sort, nil}
	}
	env.fail("no accessor %s on sort %s", field, v.Sort)
	return SpecVal{}
}

func (env *SpecEnv) idx(x EIdx) SpecVal {
	g := env.g
	v := env.tr(x.X)
	i := env.tr(x.I)
	if v.Sort == "Slice" {
		if v.Go == nil {
			env.fail("indexing untyped slice")
		}
		et := v.Go.Underlying().(*types.Slice).Elem()
		heap := g.so.sliceHeapFor(et)
		return SpecVal{fmt.Sprintf("(select (select %s (s.base %s)) (sidx (s.off %s) %s))", env.heapT(env.cur, heap), v.T, v.T, i.T), g.so.sortOf(et), et}
	}
	if _, vs, ok := arraySorts(v.Sort); ok {
		var gt types.Type
		if v.Go != nil {
			if at, ok := v.Go.Underlying().(*types.Array); ok {
				gt = at.Elem()
			}
		}
		return SpecVal{"(select " + v.T + " " + i.T + ")", vs, gt}
	}
	if v.Go != nil {
		if mt, ok := v.Go.Underlying().(*types.Map); ok {
			heap, ms := g.so.mapHeapFor(mt)
			return SpecVal{fmt.Sprintf("(select (%s.val (select %s %s)) %s)", ms, env.heapT(env.cur, heap), v.T, i.T), g.so.sortOf(mt.Elem()), mt.Elem()}
		}
	}
	env.fail("cannot index sort %s", v.Sort)
	return SpecVal{}
}

func (env *SpecEnv) call(x ECall) SpecVal {
	g := env.g
	switch x.Fn {
	case "old":
		if len(x.Args) != 1 {
			env.fail("old takes one argument")
		}
		if env.old == nil {
			env.fail("old() not available here")
		}
		n := *env
		n.cur = env.old
		return n.tr(x.Args[0])
	case "panicking":
		if env.panicking != "" {
			return SpecVal{env.panicking, "Bool", nil}
		}
		return SpecVal{g.panickingConst(), "Bool", nil}
	case "atlock":
		// the state right after the function acquired its monitor lock (what the other threads left behind)
		n := *env
		if env.atlockState != nil {
			n.cur = env.atlockState
			return n.tr(x.Args[0])
		}
		if g.lockState == nil {
			env.fail("atlock(): the function has not acquired a monitor lock before this point")
		}
		n.cur = g.lockState
		return n.tr(x.Args[0])
	case "hdr":
		if env.hdr == nil {
			env.fail("hdr() is only available in loop 'use' clauses")
		}
		h := env.hdr
		if len(env.bound) > 0 {
			// quantifier-bound names of the enclosing clause stay visible inside hdr(…)
			bv := map[string]SpecVal{}
			for k := range env.bound {
				if v, ok := env.vars[k]; ok {
					bv[k] = v
				}
			}
			h = h.with(bv)
		}
		return h.tr(x.Args[0])
	case "len":
		v := env.tr(x.Args[0])
		switch v.Sort {
		case "Slice":
			return SpecVal{"(s.len " + v.T + ")", "Int", nil}
		case "Str":
			return SpecVal{"(str.length " + v.T + ")", "Int", nil}
		}
		if v.Go != nil {
			if mt, ok := v.Go.Underlying().(*types.Map); ok {
				heap, ms := g.so.mapHeapFor(mt)
				return SpecVal{fmt.Sprintf("(%s.len (select %s %s))", ms, env.heapT(env.cur, heap), v.T), "Int", nil}
			}
		}
		if f, ok := g.eng.lenFns[v.Sort]; ok {
			return SpecVal{"(" + f + " " + v.T + ")", "Int", nil}
		}
		env.fail("len of %s", v.Sort)
	case "cap":
		v := env.tr(x.Args[0])
		return SpecVal{"(s.cap " + v.T + ")", "Int", nil}
	case "off":
		v := env.tr(x.Args[0])
		return SpecVal{"(s.off " + v.T + ")", "Int", nil}
	case "base":
		v := env.tr(x.Args[0])
		return SpecVal{"(s.base " + v.T + ")", "Int", nil}
	case "arr":
		v := env.tr(x.Args[0])
		if v.Sort != "Slice" || v.Go == nil {
			env.fail("arr() needs a typed slice")
		}
		et := v.Go.Underlying().(*types.Slice).Elem()
		heap := g.so.sliceHeapFor(et)
		return SpecVal{fmt.Sprintf("(select %s (s.base %s))", env.heapT(env.cur, heap), v.T), "(Array Int " + g.so.sortOf(et) + ")", nil}
	case "ite":
		c := env.boolT(x.Args[0])
		a, b := env.tr(x.Args[1]), env.tr(x.Args[2])
		if a.Sort == "Nil" {
			a = SpecVal{env.nilOf(b), b.Sort, b.Go}
		}
		if b.Sort == "Nil" {
			b = SpecVal{env.nilOf(a), a.Sort, a.Go}
		}
		if a.Sort != b.Sort {
			env.fail("ite branches %s vs %s", a.Sort, b.Sort)
		}
		return SpecVal{"(ite " + c + " " + a.T + " " + b.T + ")", a.Sort, a.Go}
	case "store":
		a, i, v := env.tr(x.Args[0]), env.tr(x.Args[1]), env.tr(x.Args[2])
		ks, vs, ok := arraySorts(a.Sort)
		if !ok || ks != i.Sort || vs != v.Sort {
			env.fail("store(%s, %s, %s) ill-sorted", a.Sort, i.Sort, v.Sort)
		}
		return SpecVal{"(store " + a.T + " " + i.T + " " + v.T + ")", a.Sort, a.Go}
	case "cast":
		v := env.tr(x.Args[0])
		ts, ok := x.Args[1].(EStr)
		if !ok || v.Sort != "Iface" {
			env.fail("cast(iface, \"type\")")
		}
		tsort, gt := env.resolveSort(ts.V)
		if gt == nil {
			env.fail("cast: unknown type %s", ts.V)
		}
		if tsort == "Int" && !isIntType(gt) {
			return SpecVal{"(if.ref " + v.T + ")", "Int", gt}
		}
		_, unbox := g.boxFns(tsort)
		return SpecVal{"(" + unbox + " (if.ref " + v.T + "))", tsort, gt}
	case "ext":
		// ext("name", args...): application of a trusted pure external function
		ns, ok := x.Args[0].(EStr)
		if !ok {
			env.fail("ext(\"name\", args...)")
		}
		var sorts, terms []string
		for _, a := range x.Args[1:] {
			v := env.tr(a)
			sorts = append(sorts, v.Sort)
			terms = append(terms, v.T)
		}
		fn := "ext." + smtSym(ns.V)
		if !g.so.done[fn] {
			g.so.done[fn] = true
			g.specDecls = append(g.specDecls, fmt.Sprintf("(declare-fun %s (%s) Int)", fn, strings.Join(sorts, " ")))
		}
		return SpecVal{"(" + fn + " " + strings.Join(terms, " ") + ")", "Int", nil}
	case "xor32":
		a, b := env.tr(x.Args[0]), env.tr(x.Args[1])
		return SpecVal{"(xor32 " + a.T + " " + b.T + ")", "Int", nil}
	case "wrapu32":
		v := env.tr(x.Args[0])
		return SpecVal{"(wrap_u32 " + v.T + ")", "Int", nil}
	case "goquo", "gorem":
		a, b := env.tr(x.Args[0]), env.tr(x.Args[1])
		if !g.so.done["symdiv"] {
			g.so.done["symdiv"] = true
			g.specDecls = append(g.specDecls, "(declare-fun go.quo (Int Int) Int)", "(declare-fun go.rem (Int Int) Int)")
		}
		fn := "go.quo"
		if x.Fn == "gorem" {
			fn = "go.rem"
		}
		return SpecVal{"(" + fn + " " + a.T + " " + b.T + ")", "Int", nil}
	case "noVals":
		return SpecVal{"((as const (Array Val Bool)) false)", "(Array Val Bool)", nil}
	case "rangeseen":
		// rangeseen(k): keys already visited by the k-th range-over-map of the function
		n, ok := x.Args[0].(EInt)
		if !ok {
			env.fail("rangeseen(<ordinal>)")
		}
		k := 0
		fmt.Sscan(n.V, &k)
		var ranges []*ssa.Range
		for _, b := range g.fn.Blocks {
			for _, in := range b.Instrs {
				if r, ok := in.(*ssa.Range); ok {
					if _, isMap := r.X.Type().Underlying().(*types.Map); isMap {
						ranges = append(ranges, r)
					}
				}
			}
		}
		sort.Slice(ranges, func(i, j int) bool { return ranges[i].Pos() < ranges[j].Pos() })
		if k < len(ranges) {
			key := g.iterKeyStatic(ranges[k])
			return SpecVal{env.heapT(env.cur, key), g.so.heaps[key], nil}
		}
		env.fail("no range #%d", k)
	case "lastrecv":
		// lastrecv(ch): the value most recently received from ch by this thread
		ch := env.tr(x.Args[0])
		ct, ok := ch.Go.Underlying().(*types.Chan)
		if !ok {
			env.fail("lastrecv: not a channel")
		}
		es := g.so.sortOf(ct.Elem())
		lh := g.lastRecvHeap(es)
		return SpecVal{fmt.Sprintf("(select %s %s)", env.heapT(env.cur, lh), ch.T), es, ct.Elem()}
	case "sends", "closed", "chancap", "recvs":
		ch := env.tr(x.Args[0])
		g.chanHeaps()
		switch x.Fn {
		case "sends":
			return SpecVal{fmt.Sprintf("(select %s %s)", env.heapT(env.cur, chanSendsHeap), ch.T), "Int", nil}
		case "recvs":
			return SpecVal{fmt.Sprintf("(select %s %s)", env.heapT(env.cur, chanRecvsHeap), ch.T), "Int", nil}
		case "closed":
			return SpecVal{fmt.Sprintf("(select %s %s)", env.heapT(env.cur, chanClosedHeap), ch.T), "Bool", nil}
		default:
			return SpecVal{fmt.Sprintf("(select %s %s)", env.heapT(env.cur, chanCapHeap), ch.T), "Int", nil}
		}
	case "addr":
		// addr(p.f): the address of an out-of-line field cell
		sel, ok := x.Args[0].(ESel)
		if !ok {
			env.fail("addr(p.f)")
		}
		base := env.tr(sel.X)
		pt, ok := base.Go.Underlying().(*types.Pointer)
		if !ok {
			env.fail("addr: base is not a pointer")
		}
		st := pt.Elem().Underlying().(*types.Struct)
		path := findField(st, sel.Field)
		if path == nil || !g.eng.isOutOfLine(pt.Elem(), st, path[0]) {
			env.fail("addr(): %s is not an out-of-line field", sel.Field)
		}
		return SpecVal{fmt.Sprintf("(fld %s %d)", base.T, path[0]), "Int", types.NewPointer(st.Field(path[0]).Type())}
	case "arg":
		id, ok := x.Args[0].(EIdent)
		if !ok {
			env.fail("arg() needs a parameter name")
		}
		if env.locals == nil && !env.bound[id.Name] {
			// a callee's contract at a call site: its parameters are bound to the actual arguments
			if v, ok := env.vars[id.Name]; ok {
				return v
			}
		}
		v, ok := g.paramVals[id.Name]
		if !ok {
			env.fail("arg(): no parameter %s", id.Name)
		}
		return v
	case "wrap32":
		v := env.tr(x.Args[0])
		return SpecVal{"(wrap_i32 " + v.T + ")", "Int", nil}
	case "typeof":
		v := env.tr(x.Args[0])
		if v.Sort != "Iface" {
			env.fail("typeof non-interface")
		}
		return SpecVal{"(if.tag " + v.T + ")", "Int", nil}
	case "typetag":
		s, ok := x.Args[0].(EStr)
		if !ok {
			env.fail("typetag needs a string literal")
		}
		_, gt := env.resolveSort(s.V)
		if gt == nil {
			env.fail("typetag: unknown type %s", s.V)
		}
		return SpecVal{g.so.typeTag(gt), "Int", nil}
	case "deref":
		v := env.tr(x.Args[0])
		pt, ok := v.Go.Underlying().(*types.Pointer)
		if !ok {
			env.fail("deref of non-pointer")
		}
		heap := g.so.heapFor(pt.Elem())
		return SpecVal{fmt.Sprintf("(select %s %s)", env.heapT(env.cur, heap), v.T), g.so.sortOf(pt.Elem()), pt.Elem()}
	case "mapobj":
		v := env.tr(x.Args[0])
		mt, ok := v.Go.Underlying().(*types.Map)
		if !ok {
			env.fail("mapobj of non-map")
		}
		heap, ms := g.so.mapHeapFor(mt)
		return SpecVal{fmt.Sprintf("(select %s %s)", env.heapT(env.cur, heap), v.T), ms, nil}
	case "mapdom":
		v := env.tr(x.Args[0])
		mt, ok := v.Go.Underlying().(*types.Map)
		if !ok {
			env.fail("mapdom of non-map")
		}
		heap, ms := g.so.mapHeapFor(mt)
		return SpecVal{fmt.Sprintf("(%s.dom (select %s %s))", ms, env.heapT(env.cur, heap), v.T), "(Array " + g.so.sortOf(mt.Key()) + " Bool)", nil}
	case "has":
		// has(m, k): key in Go map
		v := env.tr(x.Args[0])
		k := env.tr(x.Args[1])
		mt, ok := v.Go.Underlying().(*types.Map)
		if !ok {
			env.fail("has of non-map")
		}
		heap, ms := g.so.mapHeapFor(mt)
		return SpecVal{fmt.Sprintf("(and (not (= %s 0)) (select (%s.dom (select %s %s)) %s))", v.T, ms, env.heapT(env.cur, heap), v.T, k.T), "Bool", nil}
	case "sameheap":
		// sameheap("T"): the heap holding objects / slice elements / maps of Go type T is unchanged since the old state
		ts, ok := x.Args[0].(EStr)
		if !ok || env.old == nil {
			env.fail("sameheap(\"type\") needs an old state")
		}
		_, gt := env.resolveSort(ts.V)
		if gt == nil {
			env.fail("sameheap: unknown type %s", ts.V)
		}
		var heap string
		switch u := gt.Underlying().(type) {
		case *types.Slice:
			heap = g.so.sliceHeapFor(u.Elem())
		case *types.Map:
			heap, _ = g.so.mapHeapFor(u)
		default:
			heap = g.so.heapFor(gt)
		}
		return SpecVal{fmt.Sprintf("(= %s %s)", env.heapT(env.cur, heap), env.heapT(env.old, heap)), "Bool", nil}
	case "wasallocated":
		// wasallocated(e): e (evaluated now) denotes an object that already existed in the old state
		if env.old == nil {
			env.fail("wasallocated() needs an old state")
		}
		v := env.tr(x.Args[0])
		return SpecVal{fmt.Sprintf("(alive %s %s)", v.T, env.old.nextRef), "Bool", nil}
	case "allocated":
		v := env.tr(x.Args[0])
		nr := env.cur.nextRef
		if env.usedHeaps != nil {
			// inside a spec function: the allocation frontier is an implicit parameter, like the heaps
			found := false
			for _, h := range *env.usedHeaps {
				if h == "$nextRef" {
					found = true
				}
			}
			if !found {
				*env.usedHeaps = append(*env.usedHeaps, "$nextRef")
			}
			nr = "h$$nextRef"
		}
		return SpecVal{fmt.Sprintf("(alive %s %s)", v.T, nr), "Bool", nil}
	case "nextref":
		return SpecVal{env.cur.nextRef, "Int", nil}
	}
	if r, ok := g.intrinsicSpec(env, x); ok {
		return r
	}
	sf := g.eng.specFn(x.Fn)
	if sf == nil {
		env.fail("unknown spec function %s", x.Fn)
	}
	info := g.specFnInfo(sf)
	if len(x.Args) != len(sf.Params) {
		env.fail("%s expects %d args, got %d", x.Fn, len(sf.Params), len(x.Args))
	}
	var args []string
	for i, a := range x.Args {
		v := env.tr(a)
		if v.Sort == "Nil" {
			v = SpecVal{env.nilOf(SpecVal{Sort: info.paramSorts[i]}), info.paramSorts[i], nil}
		}
		if v.Sort != info.paramSorts[i] {
			env.fail("%s arg %d: expected %s got %s", x.Fn, i, info.paramSorts[i], v.Sort)
		}
		args = append(args, v.T)
	}
	for _, h := range info.heaps {
		if h == "$nextRef" {
			if env.usedHeaps != nil {
				found := false
				for _, hh := range *env.usedHeaps {
					if hh == "$nextRef" {
						found = true
					}
				}
				if !found {
					*env.usedHeaps = append(*env.usedHeaps, "$nextRef")
				}
				args = append(args, "h$$nextRef")
			} else {
				args = append(args, env.cur.nextRef)
			}
			continue
		}
		args = append(args, env.heapT(env.cur, h))
	}
	if len(args) == 0 {
		return SpecVal{smtFn(sf), info.retSort, info.retGo}
	}
	app := "(" + smtFn(sf) + " " + strings.Join(args, " ") + ")"
	if sf.Rec && !env.noUnfold {
		g.unfoldRec(sf, info, args, app)
	}
	return SpecVal{app, info.retSort, info.retGo}
}

// unfoldRec emits the one-level unfolding of a recursive spec function at a ground application
// (fuel 1: recursive calls inside the unfolded body are not unfolded again).
func (g *VCGen) unfoldRec(sf *SpecFn, info *specFnInfo, args []string, app string) {
	for _, a := range args {
		if strings.Contains(a, "q$") || strings.Contains(a, "l$") || strings.Contains(a, "p$") {
			return
		}
	}
	key := "unfold:" + app
	if g.so.done[key] {
		return
	}
	g.so.done[key] = true
	env := &SpecEnv{g: g, vars: map[string]SpecVal{}, pkg: g.eng.typesPkg(sf.Pkg), noUnfold: true, cur: &State{heaps: map[string]string{}}}
	for i, p := range sf.Params {
		s, gt := env.resolveSort(p.Type)
		env.vars[p.Name] = SpecVal{args[i], s, gt}
	}
	body := env.tr(sf.Body.E)
	g.assume("(= " + app + " " + body.T + ")")
}

// smtFn: SMT symbol of a spec function (prefixed: user names such as abs clash with theory symbols in cvc5)
func smtFn(sf *SpecFn) string {
	if sf.Raw {
		return sf.Name
	}
	return "sp." + sf.Name
}

type specFnInfo struct {
	paramSorts []string
	retSort    string
	retGo      types.Type
	heaps      []string
	emitted    bool
}

// specFnInfo translates (once per VCGen) a spec function into a define-fun / declare-fun.
func (g *VCGen) specFnInfo(sf *SpecFn) *specFnInfo {
	if inf, ok := g.eng.curSpecInfo(g)[sf.Name]; ok {
		return inf
	}
	inf := &specFnInfo{}
	g.eng.curSpecInfo(g)[sf.Name] = inf
	var pkg *types.Package
	if sf.Pkg != "" {
		pkg = g.eng.typesPkg(sf.Pkg)
	}
	env := &SpecEnv{g: g, vars: map[string]SpecVal{}, pkg: pkg, inSpecFn: true, noUnfold: true}
	var params []string
	for _, p := range sf.Params {
		s, gt := env.resolveSort(p.Type)
		inf.paramSorts = append(inf.paramSorts, s)
		env.vars[p.Name] = SpecVal{"p$" + p.Name, s, gt}
		params = append(params, fmt.Sprintf("(p$%s %s)", p.Name, s))
	}
	inf.retSort, inf.retGo = env.resolveSort(sf.Ret)
	if sf.Body == nil {
		if !g.eng.rawDeclared[sf.Name] {
			g.specDecls = append(g.specDecls, fmt.Sprintf("(declare-fun %s (%s) %s)", smtFn(sf), strings.Join(inf.paramSorts, " "), inf.retSort))
		}
		return inf
	}
	var heaps []string
	env.usedHeaps = &heaps
	env.cur = &State{heaps: map[string]string{}}
	func() {
		defer func() {
			if r := recover(); r != nil {
				if se, ok := r.(specErr); ok {
					panic(specErr(fmt.Sprintf("%s:%d: spec %s: %s", sf.File, sf.Line, sf.Name, string(se))))
				}
				panic(r)
			}
		}()
		body := env.tr(sf.Body.E)
		if body.Sort != inf.retSort {
			env.fail("body has sort %s, declared %s", body.Sort, inf.retSort)
		}
		if sf.Rec && len(heaps) > 0 {
			env.fail("recursive spec functions must be pure (reads heaps %v)", heaps)
		}
		inf.heaps = heaps
		for _, h := range heaps {
			if h == "$nextRef" {
				params = append(params, "(h$$nextRef Int)")
				continue
			}
			params = append(params, fmt.Sprintf("(h$%s %s)", h, g.so.heaps[h]))
		}
		if sf.Rec {
			// uninterpreted; unfolded explicitly where applied to ground terms (see unfoldRec)
			g.specDecls = append(g.specDecls, fmt.Sprintf("(declare-fun %s (%s) %s)", smtFn(sf), strings.Join(inf.paramSorts, " "), inf.retSort))
		} else if inf.retSort == "Bool" && (strings.Contains(body.T, "(forall ") || strings.Contains(body.T, "(exists ")) && len(params) > 0 {
			// quantified predicates are opaque atoms with a definitional axiom triggered on the application
			// (macro-expanding them made every solver lose track of literally asserted facts in large contexts)
			var sorts, names []string
			for _, p := range params {
				f := strings.SplitN(strings.TrimSuffix(strings.TrimPrefix(p, "("), ")"), " ", 2)
				names = append(names, f[0])
				sorts = append(sorts, f[1])
			}
			app := "(" + smtFn(sf) + " " + strings.Join(names, " ") + ")"
			g.specDecls = append(g.specDecls,
				fmt.Sprintf("(declare-fun %s (%s) Bool)", smtFn(sf), strings.Join(sorts, " ")),
				fmt.Sprintf("(assert (forall (%s) (! (= %s %s) :pattern (%s))))", strings.Join(params, " "), app, body.T, app))
		} else {
			g.specDecls = append(g.specDecls, fmt.Sprintf("(define-fun %s (%s) %s %s)", smtFn(sf), strings.Join(params, " "), inf.retSort, body.T))
		}
	}()
	return inf
}
