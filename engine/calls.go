package main

import (
	"sort"
	"fmt"
	"go/token"
	"go/types"
	"strings"

	"golang.org/x/tools/go/ssa"
)

// contractFor finds the contract of a static callee.
func (eng *Engine) contractFor(fn *ssa.Function) *FuncContract {
	for _, k := range eng.contractKeys(fn) {
		if fc, ok := eng.contracts.Funcs[k]; ok {
			return fc
		}
	}
	return nil
}

// contractKeys: pkgpath::shortname, and ::fullname for trusted specs
func (eng *Engine) contractKeys(fn *ssa.Function) []string {
	var keys []string
	full := fn.String()
	pkg := ""
	if p := funcPkg(fn); p != nil {
		pkg = p.Path()
	}
	short := full
	if pkg != "" {
		short = strings.ReplaceAll(full, pkg+".", "")
	}
	keys = append(keys, pkg+"::"+short, "::"+full)
	if o := fn.Origin(); o != nil && o != fn {
		keys = append(keys, eng.contractKeys(o)...)
	}
	return keys
}

func funcPkg(fn *ssa.Function) *types.Package {
	if fn.Pkg != nil {
		return fn.Pkg.Pkg
	}
	if fn.Parent() != nil {
		return funcPkg(fn.Parent())
	}
	if o := fn.Object(); o != nil {
		return o.Pkg()
	}
	if fn.Origin() != nil {
		return funcPkg(fn.Origin())
	}
	if fn.Signature.Recv() != nil {
		t := fn.Signature.Recv().Type()
		if p, ok := t.(*types.Pointer); ok {
			t = p.Elem()
		}
		if n, ok := t.(*types.Named); ok {
			return n.Obj().Pkg()
		}
	}
	return nil
}

// calleeEffects: static over-approximation of heaps a call may modify (for loop havoc).
func (g *VCGen) calleeEffects(ci ssa.CallInstruction) (heaps []string, allocs bool, all bool) {
	c := ci.Common()
	if c.IsInvoke() {
		if ic := g.eng.ifaceContract(c); ic != nil {
			return g.contractHeaps(ic, nil)
		}
		return nil, true, true
	}
	switch f := c.Value.(type) {
	case *ssa.Builtin:
		switch f.Name() {
		case "append":
			st := c.Args[0].Type().Underlying().(*types.Slice)
			return []string{g.so.sliceHeapFor(st.Elem())}, true, false
		case "copy":
			st := c.Args[0].Type().Underlying().(*types.Slice)
			return []string{g.so.sliceHeapFor(st.Elem())}, false, false
		case "delete":
			h, _ := g.so.mapHeapFor(c.Args[0].Type().Underlying().(*types.Map))
			return []string{h}, false, false
		}
		return nil, false, false
	}
	callee := c.StaticCallee()
	if callee == nil {
		// dynamic call of a function value: pure by convention unless contract says otherwise
		return nil, true, false
	}
	if in := g.eng.intrinsic(callee); in != nil {
		return in.heaps(g, c), in.allocs, false
	}
	fc := g.eng.contractFor(callee)
	if fc == nil {
		if len(callee.Blocks) > 0 && (callee.Synthetic != "" || g.eng.isInline(callee)) {
			// inlined at the call site: its effects are those of its body
			return g.bodyEffects(callee, 0)
		}
		return nil, true, true
	}
	return g.contractHeaps(fc, callee)
}

// bodyEffects: heaps stored to by the body of an inlined function (syntactic over-approximation)
func (g *VCGen) bodyEffects(fn *ssa.Function, depth int) (heaps []string, allocs bool, all bool) {
	if depth > 4 {
		return nil, true, true
	}
	seen := map[string]bool{}
	for _, b := range fn.Blocks {
		for _, in := range b.Instrs {
			switch x := in.(type) {
			case *ssa.Store:
				seen[g.addrHeapStatic(x.Addr)] = true
			case *ssa.MapUpdate:
				h, _ := g.so.mapHeapFor(x.Map.Type().Underlying().(*types.Map))
				seen[h] = true
			case *ssa.Alloc:
				allocs = true
				seen[g.allocHeap(x)] = true
			case *ssa.MakeSlice:
				allocs = true
				seen[g.so.sliceHeapFor(x.Type().Underlying().(*types.Slice).Elem())] = true
			case *ssa.MakeMap:
				allocs = true
				h, _ := g.so.mapHeapFor(x.Type().Underlying().(*types.Map))
				seen[h] = true
			case *ssa.MakeChan, *ssa.MakeClosure, *ssa.Send, *ssa.Select, *ssa.Go, *ssa.Defer:
				return nil, true, true
			case *ssa.Call:
				c := x.Common()
				var hs []string
				var al, ev bool
				if callee := c.StaticCallee(); callee != nil && !c.IsInvoke() && g.eng.intrinsic(callee) == nil && g.eng.contractFor(callee) == nil &&
					len(callee.Blocks) > 0 && (callee.Synthetic != "" || g.eng.isInline(callee)) {
					hs, al, ev = g.bodyEffects(callee, depth+1)
				} else {
					hs, al, ev = g.calleeEffects(x)
				}
				if ev {
					return nil, true, true
				}
				for _, h := range hs {
					seen[h] = true
				}
				allocs = allocs || al
			}
		}
	}
	for h := range seen {
		heaps = append(heaps, h)
	}
	sort.Strings(heaps)
	return
}

func (g *VCGen) contractHeaps(fc *FuncContract, callee *ssa.Function) (heaps []string, allocs bool, all bool) {
	if fc.HasPreserves {
		return nil, true, true
	}
	// translate the modifies clauses with dummy params just to learn the heaps
	defer func() {
		if r := recover(); r != nil {
			heaps, allocs, all = nil, true, true
		}
	}()
	env := &SpecEnv{g: g, vars: map[string]SpecVal{}, cur: g.entry, old: g.entry, pkg: g.eng.typesPkg(fc.Pkg)}
	var sig *types.Signature
	if callee != nil {
		sig = callee.Signature
	} else if fc.Pkg != "" {
		sig = g.eng.sigOf(fc)
	}
	if sig != nil {
		for i, n := range sigParamNames(sig) {
			t := sigParamType(sig, i)
			env.vars[n] = SpecVal{"dummy", g.so.sortOf(t), t}
		}
	}
	for _, l := range g.modLocs(env, fc.Modifies) {
		heaps = append(heaps, l.heap)
	}
	return heaps, true, false
}

func sigParamNames(sig *types.Signature) []string {
	var out []string
	if r := sig.Recv(); r != nil {
		n := r.Name()
		if n == "" || n == "_" {
			n = "self"
		}
		out = append(out, n)
	}
	for i := 0; i < sig.Params().Len(); i++ {
		n := sig.Params().At(i).Name()
		if n == "" || n == "_" {
			n = fmt.Sprintf("arg%d", len(out))
		}
		out = append(out, n)
	}
	return out
}

func sigParamType(sig *types.Signature, i int) types.Type {
	if r := sig.Recv(); r != nil {
		if i == 0 {
			return r.Type()
		}
		i--
	}
	return sig.Params().At(i).Type()
}

// beforeClauses: "before <callee>: E" obligations of the enclosing function's contract
func (g *VCGen) beforeClauses(c *ssa.CallCommon, pos token.Pos, instr ssa.Instruction) {
	if g.fc == nil || len(g.fc.Before) == 0 {
		return
	}
	name := ""
	if c.IsInvoke() {
		name = c.Method.Name()
	} else if callee := c.StaticCallee(); callee != nil {
		name = callee.Name()
		if i := strings.Index(name, "["); i > 0 {
			name = name[:i]
		}
	} else if key := dynCallKey(c.Value); key != "" {
		name = key[strings.LastIndex(key, ".")+1:]
	}
	// callarg0, callarg1, ...: the arguments of the call (receiver first)
	extra := map[string]SpecVal{}
	if !c.IsInvoke() {
		for i, a := range c.Args {
			if _, isAddr := g.addrs[a]; isAddr {
				continue
			}
			func() {
				defer func() { recover() }()
				extra[fmt.Sprintf("callarg%d", i)] = g.val(a)
			}()
		}
	}
	g.beforeNamed(name, pos, instr, extra)
}

// beforeNamed: obligations "before <name>: E" evaluated in the state just before the instruction
func (g *VCGen) beforeNamed(name string, pos token.Pos, instr ssa.Instruction, extra ...map[string]SpecVal) {
	if g.fc == nil {
		return
	}
	cls := g.fc.Before[name]
	if len(cls) == 0 {
		return
	}
	env := g.ownEnv(g.cur)
	for _, m := range extra {
		for k, v := range m {
			env.vars[k] = v
		}
	}
	var blk *ssa.BasicBlock
	if instr != nil {
		blk = instr.Block()
	}
	if blk != nil {
		env.locals = g.localsAtInstr(blk, instr, nil)
	}
	for k, cl := range cls {
		goal, ok := func() (s string, ok bool) {
			defer func() {
				if r := recover(); r != nil {
					if se, isSE := r.(specErr); isSE && strings.Contains(string(se), "unknown identifier") {
						// the clause names a variable that is not in scope at this call site: it does not apply here
						g.warnings = append(g.warnings, fmt.Sprintf("before %s clause %d skipped at %s (%s)", name, k, g.fn.Prog.Fset.Position(pos), string(se)))
						ok = false
						return
					}
					panic(r)
				}
			}()
			return g.trGoal(env, cl), true
		}()
		if !ok {
			continue
		}
		if g.beforeApplied == nil {
			g.beforeApplied = map[string]bool{}
		}
		g.beforeApplied[fmt.Sprintf("%s.%d", name, k)] = true
		g.oblige(fmt.Sprintf("before.%s.%d@%s", name, k, g.fn.Prog.Fset.Position(pos).String()[strings.LastIndex(g.fn.Prog.Fset.Position(pos).String(), "/")+1:]), "requires", goal, "before "+name+": "+cl.Text, pos)
		// like an assert statement: once checked, the fact is available downstream (a cut point for the solver)
		g.assumeHere(g.trClause(env, cl))
	}
}

func (g *VCGen) callInstr(ci ssa.CallInstruction, v *ssa.Call) {
	c := ci.Common()
	var results []SpecVal
	pos := ci.Pos()
	g.beforeClauses(c, pos, ci)
	if c.IsInvoke() {
		results = g.invoke(c, pos, v)
	} else if b, ok := c.Value.(*ssa.Builtin); ok {
		results = g.builtin(b, c, pos, v)
	} else if callee := c.StaticCallee(); callee != nil {
		results = g.staticCall(callee, c, pos, v)
	} else {
		results = g.dynamicCall(c, pos, v)
	}
	if v == nil {
		return
	}
	sigRes := c.Signature().Results()
	if b, ok := c.Value.(*ssa.Builtin); ok {
		_ = b
		if len(results) == 1 {
			g.vals[v] = results[0]
		}
		return
	}
	switch sigRes.Len() {
	case 0:
	case 1:
		if len(results) != 1 {
			panic(unsupported("call result count mismatch for " + v.String()))
		}
		g.vals[v] = results[0]
	default:
		g.tuples[v] = results
	}
}

func (g *VCGen) argVals(c *ssa.CallCommon) []SpecVal {
	var out []SpecVal
	for _, a := range c.Args {
		if sv, ok := g.vals[a]; ok {
			out = append(out, sv)
			continue
		}
		if _, isAddr := g.addrs[a]; isAddr {
			out = append(out, g.escapeAddr(a))
			continue
		}
		out = append(out, g.val(a))
	}
	return out
}

// escapeAddr: an interior pointer passed to a call. Supported only for out-of-line modelled fields.
func (g *VCGen) escapeAddr(a ssa.Value) SpecVal {
	ad := g.addrs[a]
	if ad.Kind == "obj" && len(ad.Path) == 0 {
		return SpecVal{ad.Ref, "Int", a.Type()}
	}
	panic(unsupported(fmt.Sprintf("interior pointer %s passed to a call in %s", a.String(), g.fn.String())))
}

func (g *VCGen) staticCall(callee *ssa.Function, c *ssa.CallCommon, pos token.Pos, v *ssa.Call) []SpecVal {
	if in := g.eng.intrinsic(callee); in != nil {
		g.usedTrusted[in.name] = true
		return in.apply(g, c, pos, v)
	}
	fc := g.eng.contractFor(callee)
	if fc == nil {
		if _, isClosure := c.Value.(*ssa.MakeClosure); !isClosure && len(callee.Blocks) > 0 && (callee.Synthetic != "" || g.eng.isInline(callee)) {
			g.pendingInlineArgs = c.Args
			return g.inlineCall(callee, g.argVals(c), pos)
		}
		if p := funcPkg(callee); p != nil && stdlibPure(p.Path()) {
			in := pureExtern("standard library: "+callee.String()+" has no effect on tracked state (results unconstrained)", false)
			g.usedTrusted[in.name] = true
			return in.apply(g, c, pos, v)
		}
		panic(unsupported(fmt.Sprintf("call to %s which has no contract", callee.String())))
	}
	args := g.argVals(c)
	// closure call: bindings are free variables
	var fvNames []string
	var fvVals []SpecVal
	if mc, ok := c.Value.(*ssa.MakeClosure); ok {
		for i, b := range mc.Bindings {
			fvNames = append(fvNames, callee.FreeVars[i].Name())
			if _, isAddr := g.addrs[b]; isAddr {
				fvVals = append(fvVals, g.escapeAddr(b))
			} else {
				fvVals = append(fvVals, g.val(b))
			}
		}
	}
	names := sigParamNames(callee.Signature)
	if len(callee.Params) == len(args) {
		for i, p := range callee.Params {
			names[i] = recvName(callee, i, p)
		}
	}
	names = append(names, fvNames...)
	args = append(args, fvVals...)
	var resTypes []types.Type
	for i := 0; i < callee.Signature.Results().Len(); i++ {
		resTypes = append(resTypes, callee.Signature.Results().At(i).Type())
	}
	var resNames []string
	for i := 0; i < callee.Signature.Results().Len(); i++ {
		resNames = append(resNames, callee.Signature.Results().At(i).Name())
	}
	label := "call@" + callee.Name()
	if v != nil {
		label = "call@" + v.Name() + ":" + callee.Name()
	}
	g.usedCallees[callee.String()] = true
	if fc.Trusted {
		g.usedTrusted["contract:"+callee.String()] = true
	}
	// receiver must be non-nil for pointer-receiver methods
	if callee.Signature.Recv() != nil && len(args) > 0 && !hasProp(fc.Props, "nilrecv") {
		if _, isPtr := callee.Signature.Recv().Type().Underlying().(*types.Pointer); isPtr {
			if len(c.Args) > 0 {
				g.nilCheck(c.Args[0], args[0].T, pos)
			}
		}
	}
	return g.applyContract(fc, g.eng.typesPkg(fc.Pkg), names, args, resTypes, resNames, pos, label)
}

// applyContract: check requires, split on panics, havoc frame, assume ensures.
func (g *VCGen) applyContract(fc *FuncContract, pkg *types.Package, names []string, args []SpecVal, resTypes []types.Type, resNames []string, pos token.Pos, label string) []SpecVal {
	pre := g.cur
	env := &SpecEnv{g: g, vars: map[string]SpecVal{}, cur: pre, old: pre, pkg: pkg}
	for i, n := range names {
		if i < len(args) {
			env.vars[n] = args[i]
		}
	}
	for k, c := range fc.Requires {
		g.oblige(fmt.Sprintf("%s.requires.%d", label, k), "requires", g.trGoal(env, c), c.Text, pos)
	}
	if fc.MayPanic {
		if g.fc == nil || !g.fc.MayPanic {
			g.oblige(label+".maypanic", "panics", "false", "callee may panic (callback) but caller's contract does not allow it", pos)
		}
	}
	if fc.PanicsIff != nil {
		q := g.trClause(env, *fc.PanicsIff)
		if g.fc != nil && g.fc.MayPanic {
			// allowed, unless the caller's contract rules this callee's panic out
			if noPanicAt(g.fc, fc.Name) {
				g.oblige(label+".nopanic", "nopanic", not(q), "callee panics when: "+fc.PanicsIff.Text+" (caller declares 'nopanic' for it)", pos)
			}
		} else if g.fc == nil || g.fc.PanicsIff == nil {
			g.oblige(label+".nopanic", "nopanic", not(q), "callee panics when: "+fc.PanicsIff.Text, pos)
		} else if g.fc.PanicKind == "tla" && fc.PanicKind != "tla" {
			g.oblige(label+".nopanic.kind", "panics", not(q), "callee's panic is not a TLA+ type error: "+fc.PanicsIff.Text, pos)
		} else {
			g.oblige(label+".panics.if", "panics", implies(q, g.panicAllowed), "callee panics ("+fc.PanicsIff.Text+") only when caller may: "+g.fc.PanicsIff.Text, pos)
		}
		g.pathCond = and(g.pathCond, not(q))
	}
	var post *State
	if fc.HasPreserves {
		post = g.havocAllBut(pre, g.modLocs(env, fc.Preserves))
	} else {
		locs := g.modLocs(env, fc.Modifies)
		post = g.havocFor(pre, locs, true)
	}
	g.cur = post
	var results []SpecVal
	for i, t := range resTypes {
		s := g.so.sortOf(t)
		name := g.freshConst(smtSym(label)+"!r"+fmt.Sprint(i), s)
		sv := SpecVal{name, s, t}
		results = append(results, sv)
		g.rangeFact(sv)
		g.assumeHere(g.allocFact(name, t, post))
	}
	penv := &SpecEnv{g: g, vars: env.vars, cur: post, old: pre, pkg: pkg, results: results, resNames: resNames}
	if g.inRunDefers {
		penv.panicking = "false" // deferred calls run here because the function returns normally
	} else {
		penv.panicking = g.freshConst("callee!panicking", "Bool")
	}
	// atlock(e) in the callee's postcondition speaks about a state inside the call (right after it took its lock):
	// for the caller that is some state that differs from the pre-state at most in what the callee may modify
	if !fc.HasPreserves {
		penv.atlockState = g.havocFor(pre, g.modLocs(env, fc.Modifies), true)
	} else {
		penv.atlockState = g.havocAllBut(pre, g.modLocs(env, fc.Preserves))
	}
	for _, c := range fc.Ensures {
		g.assumeHere(g.trClause(penv, c))
	}
	for _, gs := range fc.GhostSets {
		nv := env.tr(gs.C.E) // in the pre-state
		if gv, ok := g.ghostVal(post, gs.Name); ok {
			g.assumeHere(fmt.Sprintf("(= %s %s)", gv.T, nv.T))
		}
	}
	g.globalFacts(post)
	return results
}

// dynCallKey: "Type.field" when the called function value is read from a struct field
func dynCallKey(v ssa.Value) string {
	var st types.Type
	var field int
	switch x := v.(type) {
	case *ssa.UnOp:
		fa, ok := x.X.(*ssa.FieldAddr)
		if !ok {
			return ""
		}
		st = fa.X.Type().Underlying().(*types.Pointer).Elem()
		field = fa.Field
	case *ssa.Field:
		st = x.X.Type()
		field = x.Field
	default:
		return ""
	}
	n, ok := st.(*types.Named)
	if !ok {
		return ""
	}
	return n.Obj().Name() + "." + n.Underlying().(*types.Struct).Field(field).Name()
}

func (g *VCGen) dynamicCall(c *ssa.CallCommon, pos token.Pos, v *ssa.Call) []SpecVal {
	if key := dynCallKey(c.Value); key != "" {
		pkg := g.pkgOf(g.fn)
		if fc := g.eng.contracts.Funcs[pkg.Path()+"::dyn:"+key]; fc != nil {
			self := g.val(c.Value)
			args := g.argVals(c)
			sig := c.Signature()
			// "self" names the function value itself in a dyn contract
			names := []string{"self"}
			args = append([]SpecVal{self}, args...)
			for i := 0; i < sig.Params().Len(); i++ {
				n := sig.Params().At(i).Name()
				if n == "" || n == "_" {
					n = fmt.Sprintf("arg%d", i)
				}
				names = append(names, n)
			}
			var resTypes []types.Type
			var resNames []string
			for i := 0; i < sig.Results().Len(); i++ {
				resTypes = append(resTypes, sig.Results().At(i).Type())
				resNames = append(resNames, sig.Results().At(i).Name())
			}
			g.usedTrusted["assumed contract for the function value "+key+" (generated code)"] = true
			return g.applyContract(fc, pkg, names, args, resTypes, resNames, pos, "dyncall@"+key)
		}
	}
	// call of a function value (parameter, field, closure variable). Modelled as a pure, deterministic,
	// possibly panicking application: result = apply_sig(fn, args...).
	if g.fc == nil || !(g.fc.MayPanic) {
		g.oblige("call@dynamic.maypanic", "panics", "false", "call of a function value may panic; contract must say 'maypanic'", pos)
	}
	fnv := g.val(c.Value)
	args := g.argVals(c)
	sig := c.Signature()
	var results []SpecVal
	for i := 0; i < sig.Results().Len(); i++ {
		t := sig.Results().At(i).Type()
		s := g.so.sortOf(t)
		var sorts, terms []string
		sorts = append(sorts, "Int")
		terms = append(terms, fnv.T)
		for _, a := range args {
			if a.Sort == "Slice" {
				// slices are passed by their current contents: use header + content array
				et := a.Go.Underlying().(*types.Slice).Elem()
				sorts = append(sorts, "Slice", "(Array Int "+g.so.sortOf(et)+")")
				terms = append(terms, a.T, fmt.Sprintf("(select %s (s.base %s))", g.heapTerm(g.cur, g.so.sliceHeapFor(et)), a.T))
				continue
			}
			sorts = append(sorts, a.Sort)
			terms = append(terms, a.T)
		}
		fname := fmt.Sprintf("apply!%s!%d", smtSym(strings.Join(sorts, "_")+"_"+s), i)
		fname = strings.NewReplacer("(", "", ")", "", " ", "_").Replace(fname)
		if !g.so.done[fname] {
			g.so.done[fname] = true
			g.specDecls = append(g.specDecls, fmt.Sprintf("(declare-fun %s (%s) %s)", fname, strings.Join(sorts, " "), s))
		}
		name := g.freshConst("dyn!r", s)
		g.assume(fmt.Sprintf("(= %s (%s %s))", name, fname, strings.Join(terms, " ")))
		sv := SpecVal{name, s, t}
		g.rangeFact(sv)
		g.assumeHere(g.allocFact(name, t, g.cur))
		results = append(results, sv)
	}
	g.usedTrusted["function values passed as arguments are pure and deterministic (may panic)"] = true
	return results
}

// ---------------------------------------------------------------- builtins

func (g *VCGen) builtin(b *ssa.Builtin, c *ssa.CallCommon, pos token.Pos, v *ssa.Call) []SpecVal {
	switch b.Name() {
	case "len":
		a := g.val(c.Args[0])
		switch t := c.Args[0].Type().Underlying().(type) {
		case *types.Slice:
			return []SpecVal{g.define(v, fmt.Sprintf("(s.len %s)", a.T))}
		case *types.Basic:
			return []SpecVal{g.define(v, fmt.Sprintf("(str.length %s)", a.T))}
		case *types.Map:
			heap, ms := g.so.mapHeapFor(t)
			return []SpecVal{g.define(v, fmt.Sprintf("(ite (= %s 0) 0 (%s.len (select %s %s)))", a.T, ms, g.heapTerm(g.cur, heap), a.T))}
		case *types.Chan:
			sv := g.havocVal(v)
			g.assume(fmt.Sprintf("(>= %s 0)", sv.T))
			return []SpecVal{sv}
		}
	case "cap":
		a := g.val(c.Args[0])
		if _, ok := c.Args[0].Type().Underlying().(*types.Slice); ok {
			return []SpecVal{g.define(v, fmt.Sprintf("(s.cap %s)", a.T))}
		}
	case "append":
		return []SpecVal{g.appendBuiltin(c, pos, v)}
	case "copy":
		return []SpecVal{g.copyBuiltin(c, pos, v)}
	case "delete":
		g.mapDelete(c)
		return nil
	case "close":
		g.closeChan(c, pos)
		return nil
	case "print", "println":
		return nil
	case "recover":
		// recover() yields a non-nil value exactly when the function whose deferred call this is is panicking
		rv := g.freshConst("recover!v", "Iface")
		g.assume(fmt.Sprintf("(and (= (not (= %s nilIface)) %s) (= (= (if.tag %s) 0) (= %s nilIface)))", rv, g.panickingConst(), rv, rv))
		return []SpecVal{{rv, "Iface", c.Signature().Results().At(0).Type()}}
	case "ssa:wrapnilchk":
		a := g.val(c.Args[0])
		g.nilCheck(c.Args[0], a.T, pos)
		return []SpecVal{{a.T, a.Sort, c.Args[0].Type()}}
	case "min", "max":
		if len(c.Args) == 2 {
			a, bb := g.val(c.Args[0]), g.val(c.Args[1])
			op := "<="
			if b.Name() == "max" {
				op = ">="
			}
			return []SpecVal{g.define(v, fmt.Sprintf("(ite (%s %s %s) %s %s)", op, a.T, bb.T, a.T, bb.T))}
		}
	}
	panic(unsupported("builtin " + b.Name()))
}

func (g *VCGen) appendBuiltin(c *ssa.CallCommon, pos token.Pos, v *ssa.Call) SpecVal {
	s := g.val(c.Args[0])
	t := g.val(c.Args[1])
	st := c.Args[0].Type().Underlying().(*types.Slice)
	if _, isStr := c.Args[1].Type().Underlying().(*types.Basic); isStr {
		panic(unsupported("append(bytes, string...)"))
	}
	es := g.so.sortOf(st.Elem())
	heap := g.so.sliceHeapFor(st.Elem())
	h := g.heapTerm(g.cur, heap)
	n := fmt.Sprintf("(s.len %s)", t.T)
	sl := fmt.Sprintf("(s.len %s)", s.T)
	inplace := g.freshConst("append!inplace", "Bool")
	g.assume(fmt.Sprintf("(= %s (<= (+ %s %s) (s.cap %s)))", inplace, sl, n, s.T))
	nb := g.newRef()
	ncap := g.freshConst("append!cap", "Int")
	g.assume(fmt.Sprintf("(>= %s (+ %s %s))", ncap, sl, n))
	if !zeroSized(st.Elem()) {
		g.assume(fmt.Sprintf("(<= %s 281474976710656)", ncap))
	}
	srcArr := fmt.Sprintf("(select %s (s.base %s))", h, t.T)
	dstArr := fmt.Sprintf("(select %s (s.base %s))", h, s.T)
	arrSort := "(Array Int " + es + ")"
	// in-place target array
	ip := g.freshConst("append!ip", arrSort)
	g.assume(fmt.Sprintf("(forall ((i Int)) (! (= (select %s i) (ite (and (<= (+ (s.off %s) %s) i) (< i (+ (s.off %s) %s %s))) (select %s (+ (s.off %s) (- i (+ (s.off %s) %s)))) (select %s i))) :pattern ((select %s i))))",
		ip, s.T, sl, s.T, sl, n, srcArr, t.T, s.T, sl, dstArr, ip))
	// fresh array
	fa := g.freshConst("append!new", arrSort)
	g.assume(fmt.Sprintf("(forall ((i Int)) (! (=> (and (<= 0 i) (< i (+ %s %s))) (= (select %s i) (ite (< i %s) (select %s (+ (s.off %s) i)) (select %s (+ (s.off %s) (- i %s)))))) :pattern ((select %s i))))",
		sl, n, fa, sl, dstArr, s.T, srcArr, t.T, sl, fa))
	g.setHeap(g.cur, heap, fmt.Sprintf("(ite %s (store %s (s.base %s) %s) (store %s %s %s))", inplace, h, s.T, ip, h, nb, fa))
	res := g.define(v, fmt.Sprintf("(ite %s (mkSlice (s.base %s) (s.off %s) (+ %s %s) (s.cap %s)) (mkSlice %s 0 (+ %s %s) %s))", inplace, s.T, s.T, sl, n, s.T, nb, sl, n, ncap))
	return res
}

func (g *VCGen) copyBuiltin(c *ssa.CallCommon, pos token.Pos, v *ssa.Call) SpecVal {
	d := g.val(c.Args[0])
	s := g.val(c.Args[1])
	st := c.Args[0].Type().Underlying().(*types.Slice)
	if _, isStr := c.Args[1].Type().Underlying().(*types.Basic); isStr {
		panic(unsupported("copy(bytes, string)"))
	}
	es := g.so.sortOf(st.Elem())
	heap := g.so.sliceHeapFor(st.Elem())
	h := g.heapTerm(g.cur, heap)
	n := g.freshConst("copy!n", "Int")
	g.assume(fmt.Sprintf("(= %s (ite (<= (s.len %s) (s.len %s)) (s.len %s) (s.len %s)))", n, d.T, s.T, d.T, s.T))
	arrSort := "(Array Int " + es + ")"
	na := g.freshConst("copy!arr", arrSort)
	srcArr := fmt.Sprintf("(select %s (s.base %s))", h, s.T)
	dstArr := fmt.Sprintf("(select %s (s.base %s))", h, d.T)
	g.assume(fmt.Sprintf("(forall ((i Int)) (! (= (select %s i) (ite (and (<= (s.off %s) i) (< i (+ (s.off %s) %s))) (select %s (+ (s.off %s) (- i (s.off %s)))) (select %s i))) :pattern ((select %s i))))",
		na, d.T, d.T, n, srcArr, s.T, d.T, dstArr, na))
	g.setHeap(g.cur, heap, fmt.Sprintf("(store %s (s.base %s) %s)", h, d.T, na))
	if v != nil {
		return g.define(v, n)
	}
	return SpecVal{n, "Int", types.Typ[types.Int]}
}

func stdlibPure(path string) bool {
	for _, p := range []string{"strings", "strconv", "fmt", "errors", "time", "os", "log", "math", "math/rand", "bytes", "sort", "unicode", "unicode/utf8", "path/filepath", "io", "io/ioutil", "path", "runtime/debug", "net/rpc"} {
		if path == p {
			return true
		}
	}
	return false
}

func noPanicAt(fc *FuncContract, callee string) bool {
	for _, n := range fc.NoPanicAt {
		if callee == n || strings.HasSuffix(callee, "."+n) {
			return true
		}
	}
	return false
}
