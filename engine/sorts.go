package main

import (
	"fmt"
	"go/types"
	"sort"
	"strings"
)

// Sorts maps Go types to SMT sorts and accumulates datatype declarations.
type Sorts struct {
	decls     []string          // in dependency order
	done      map[string]bool   // sort name -> declared
	structs   map[string]*types.Struct
	structGo  map[string]types.Type
	typeTags  map[string]int // canonical type string -> tag number
	tagNames  []string
	heaps     map[string]string // heap name -> sort
	heapOrder []string
	strLits   map[string]string
	strOrder  []string
	special   func(t types.Type) (string, bool) // hook for library value types
	immut     map[string]bool
}

func newSorts() *Sorts {
	return &Sorts{done: map[string]bool{}, structs: map[string]*types.Struct{}, structGo: map[string]types.Type{},
		typeTags: map[string]int{}, heaps: map[string]string{}, strLits: map[string]string{}, immut: map[string]bool{}}
}

func smtSym(s string) string {
	ok := true
	for _, r := range s {
		if !(r >= 'a' && r <= 'z' || r >= 'A' && r <= 'Z' || r >= '0' && r <= '9' || strings.ContainsRune("~!@$%^&*_-+=<>.?/", r)) {
			ok = false
			break
		}
	}
	if ok && s != "" {
		return s
	}
	var b strings.Builder
	for _, r := range s {
		if r >= 'a' && r <= 'z' || r >= 'A' && r <= 'Z' || r >= '0' && r <= '9' || strings.ContainsRune("~!@$%^&*_-+=<>.?/", r) {
			b.WriteRune(r)
		} else {
			b.WriteRune('_')
		}
	}
	return b.String()
}

func shortTypeName(t types.Type) string {
	return types.TypeString(t, func(p *types.Package) string { return p.Name() })
}

func qualTypeName(t types.Type) string {
	return types.TypeString(t, func(p *types.Package) string { return p.Path() })
}

const preludeCore = `
(declare-sort Str 0)
(declare-datatypes ((Slice 0)) (((mkSlice (s.base Int) (s.off Int) (s.len Int) (s.cap Int)))))
(declare-datatypes ((Iface 0)) (((mkIface (if.tag Int) (if.ref Int)))))
(define-fun nilSlice () Slice (mkSlice 0 0 0 0))
(define-fun nilIface () Iface (mkIface 0 0))
(define-fun wrap_i8 ((x Int)) Int (- (mod (+ x 128) 256) 128))
(define-fun wrap_i16 ((x Int)) Int (- (mod (+ x 32768) 65536) 32768))
(define-fun wrap_i32 ((x Int)) Int (- (mod (+ x 2147483648) 4294967296) 2147483648))
(define-fun wrap_i64 ((x Int)) Int (- (mod (+ x 9223372036854775808) 18446744073709551616) 9223372036854775808))
(define-fun wrap_u8 ((x Int)) Int (mod x 256))
(define-fun wrap_u16 ((x Int)) Int (mod x 65536))
(define-fun wrap_u32 ((x Int)) Int (mod x 4294967296))
(define-fun wrap_u64 ((x Int)) Int (mod x 18446744073709551616))
(define-fun tdiv ((x Int) (y Int)) Int (ite (>= x 0) (div x y) (- (div (- x) y))))
(define-fun tmod ((x Int) (y Int)) Int (- x (* y (tdiv x y))))
(declare-fun str.cat (Str Str) Str)
(declare-fun str.length (Str) Int)
(assert (forall ((s Str)) (! (>= (str.length s) 0) :pattern ((str.length s)))))
(declare-fun xor32 (Int Int) Int)
(declare-fun sidx (Int Int) Int)
(assert (forall ((o Int) (i Int)) (! (= (sidx o i) (+ o i)) :pattern ((sidx o i)))))
(declare-fun fld (Int Int) Int)
(declare-fun fld.owner (Int) Int)
(declare-fun fld.idx (Int) Int)
(define-fun alive ((r Int) (nr Int)) Bool (ite (< r 0) (< (fld.owner r) nr) (< r nr)))
(assert (forall ((r Int) (i Int)) (! (and (< (fld r i) 0) (= (fld.owner (fld r i)) r) (= (fld.idx (fld r i)) i)) :pattern ((fld r i)))))
`

const mulUninterp = `(declare-fun mul (Int Int) Int)
(assert (forall ((x Int) (y Int)) (! (= (mul x y) (mul y x)) :pattern ((mul x y)))))
`
const mulInterp = `(define-fun mul ((x Int) (y Int)) Int (* x y))
`

func (so *Sorts) intRange(t types.Type) (lo, hi string, ok bool) {
	b, isb := t.Underlying().(*types.Basic)
	if !isb {
		return
	}
	switch b.Kind() {
	case types.Int8:
		return "(- 128)", "127", true
	case types.Int16:
		return "(- 32768)", "32767", true
	case types.Int32:
		return "(- 2147483648)", "2147483647", true
	case types.Int, types.Int64:
		return "(- 9223372036854775808)", "9223372036854775807", true
	case types.Uint8:
		return "0", "255", true
	case types.Uint16:
		return "0", "65535", true
	case types.Uint32:
		return "0", "4294967295", true
	case types.Uint, types.Uint64, types.Uintptr:
		return "0", "18446744073709551615", true
	case types.UntypedInt:
		return
	}
	return
}

func wrapFn(t types.Type) string {
	b, isb := t.Underlying().(*types.Basic)
	if !isb {
		return ""
	}
	switch b.Kind() {
	case types.Int8:
		return "wrap_i8"
	case types.Int16:
		return "wrap_i16"
	case types.Int32:
		return "wrap_i32"
	case types.Int, types.Int64:
		return "wrap_i64"
	case types.Uint8:
		return "wrap_u8"
	case types.Uint16:
		return "wrap_u16"
	case types.Uint32:
		return "wrap_u32"
	case types.Uint, types.Uint64, types.Uintptr:
		return "wrap_u64"
	}
	return ""
}

func isUnsigned(t types.Type) bool {
	b, isb := t.Underlying().(*types.Basic)
	return isb && b.Info()&types.IsUnsigned != 0
}

func isIntType(t types.Type) bool {
	b, isb := t.Underlying().(*types.Basic)
	return isb && b.Info()&types.IsInteger != 0
}

// sortOf returns the SMT sort for a Go type, declaring datatypes as needed.
func (so *Sorts) sortOf(t types.Type) string {
	if so.special != nil {
		if s, ok := so.special(t); ok {
			return s
		}
	}
	switch u := t.(type) {
	case *types.Named:
		if st, ok := u.Underlying().(*types.Struct); ok {
			name := "S!" + smtSym(shortTypeName(u))
			if prev, ok := so.structGo[name]; ok && !types.Identical(prev, u) {
				// two packages with the same name (sync and internal/sync): disambiguate by full path
				name = "S!" + smtSym(qualTypeName(u))
			}
			so.declStruct(name, st, u)
			return name
		}
		return so.sortOf(u.Underlying())
	case *types.Alias:
		return so.sortOf(types.Unalias(u))
	case *types.Basic:
		switch {
		case u.Info()&types.IsBoolean != 0:
			return "Bool"
		case u.Info()&types.IsInteger != 0:
			return "Int"
		case u.Info()&types.IsString != 0:
			return "Str"
		case u.Info()&types.IsFloat != 0:
			return "Real"
		case u.Kind() == types.UnsafePointer:
			return "Int"
		case u.Kind() == types.UntypedNil:
			return "Int"
		}
	case *types.Pointer:
		return "Int"
	case *types.Slice:
		so.sortOf(u.Elem())
		return "Slice"
	case *types.Map, *types.Chan, *types.Signature:
		return "Int"
	case *types.Interface:
		return "Iface"
	case *types.Struct:
		name := "S!anon" + fmt.Sprint(len(so.structs)) + "_" + smtSym(fmt.Sprint(u.NumFields()))
		// find existing identical
		for n, s := range so.structs {
			if types.Identical(s, u) && strings.HasPrefix(n, "S!anon") {
				return n
			}
		}
		so.declStruct(name, u, u)
		return name
	case *types.Array:
		return "(Array Int " + so.sortOf(u.Elem()) + ")"
	case *types.TypeParam:
		return "Int"
	case *types.Tuple:
		return "Tuple"
	}
	panic(unsupported("sort of type " + t.String()))
}

func (so *Sorts) declStruct(name string, st *types.Struct, gt types.Type) {
	if so.done[name] {
		return
	}
	so.done[name] = true
	so.structs[name] = st
	so.structGo[name] = gt
	var fields []string
	for i := 0; i < st.NumFields(); i++ {
		f := st.Field(i)
		fs := so.sortOf(f.Type())
		fields = append(fields, fmt.Sprintf("(%s %s)", so.fieldSel(name, f.Name(), i), fs))
	}
	if len(fields) == 0 {
		so.decls = append(so.decls, fmt.Sprintf("(declare-datatypes ((%s 0)) (((mk!%s))))", name, name))
	} else {
		so.decls = append(so.decls, fmt.Sprintf("(declare-datatypes ((%s 0)) (((mk!%s %s))))", name, name, strings.Join(fields, " ")))
	}
}

func (so *Sorts) fieldSel(sortName, field string, idx int) string {
	if field == "_" {
		field = fmt.Sprintf("_%d", idx)
	}
	return sortName + "." + field
}

// zero value term of a Go type
func (so *Sorts) zero(t types.Type) string {
	s := so.sortOf(t)
	switch s {
	case "Bool":
		return "false"
	case "Int":
		return "0"
	case "Real":
		return "0.0"
	case "Str":
		return so.strLit("")
	case "Slice":
		return "nilSlice"
	case "Iface":
		return "nilIface"
	}
	if st, ok := so.structs[s]; ok {
		if st.NumFields() == 0 {
			return "mk!" + s
		}
		var parts []string
		for i := 0; i < st.NumFields(); i++ {
			parts = append(parts, so.zero(st.Field(i).Type()))
		}
		return "(mk!" + s + " " + strings.Join(parts, " ") + ")"
	}
	if z, ok := specialZero[s]; ok {
		return z
	}
	if a, ok := t.Underlying().(*types.Array); ok {
		return fmt.Sprintf("((as const %s) %s)", s, so.zero(a.Elem()))
	}
	panic(unsupported("zero value of sort " + s))
}

var specialZero = map[string]string{}

func (so *Sorts) strLit(s string) string {
	if n, ok := so.strLits[s]; ok {
		return n
	}
	n := fmt.Sprintf("strlit!%d", len(so.strLits))
	so.strLits[s] = n
	so.strOrder = append(so.strOrder, s)
	return n
}

func (so *Sorts) typeTag(t types.Type) string {
	// a type alias (type vclock = GCounter) has the dynamic type of what it names
	t = types.Unalias(t)
	if p, ok := t.(*types.Pointer); ok {
		if _, isAlias := p.Elem().(*types.Alias); isAlias {
			t = types.NewPointer(types.Unalias(p.Elem()))
		}
	}
	k := qualTypeName(t)
	if _, ok := so.typeTags[k]; !ok {
		so.typeTags[k] = len(so.typeTags) + 1
		so.tagNames = append(so.tagNames, k)
	}
	return fmt.Sprint(so.typeTags[k])
}

func (so *Sorts) heap(name, sort string) string {
	if _, ok := so.heaps[name]; !ok {
		so.heaps[name] = sort
		so.heapOrder = append(so.heapOrder, name)
	}
	return name
}

// heap holding objects of Go type t (pointee type)
func (so *Sorts) heapFor(t types.Type) string {
	s := so.sortOf(t)
	if strings.HasPrefix(s, "S!") {
		return so.heap("H!"+s[2:], "(Array Int "+s+")")
	}
	return so.heap("HB!"+smtSym(s), "(Array Int "+s+")")
}

func (so *Sorts) sliceHeapFor(elem types.Type) string {
	s := so.sortOf(elem)
	return so.heap("HS!"+smtSym(s), "(Array Int (Array Int "+s+"))")
}

func (so *Sorts) mapHeapFor(m *types.Map) (heap, msort string) {
	ks, vs := so.sortOf(m.Key()), so.sortOf(m.Elem())
	msort = "GoMap!" + smtSym(ks) + "!" + smtSym(vs)
	if !so.done[msort] {
		so.done[msort] = true
		so.decls = append(so.decls, fmt.Sprintf("(declare-datatypes ((%s 0)) (((mk!%s (%s.dom (Array %s Bool)) (%s.val (Array %s %s)) (%s.len Int)))))", msort, msort, msort, ks, msort, ks, vs, msort))
	}
	return so.heap("HM!"+smtSym(ks)+"!"+smtSym(vs), "(Array Int "+msort+")"), msort
}

func (so *Sorts) strDecls() []string {
	var out []string
	var names []string
	for _, s := range so.strOrder {
		n := so.strLits[s]
		out = append(out, fmt.Sprintf("(declare-const %s Str) ; %q", n, s))
		out = append(out, fmt.Sprintf("(assert (= (str.length %s) %d))", n, len(s)))
		names = append(names, n)
	}
	if len(names) > 1 {
		out = append(out, "(assert (distinct "+strings.Join(names, " ")+"))")
	}
	return out
}

func sortedKeys(m map[string]string) []string {
	var ks []string
	for k := range m {
		ks = append(ks, k)
	}
	sort.Strings(ks)
	return ks
}

type unsupportedErr string

func unsupported(s string) unsupportedErr { return unsupportedErr(s) }
