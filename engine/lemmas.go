package main

import (
	"go/constant"
	"fmt"
	"go/token"
	"go/types"
	"sort"
	"strings"

	"golang.org/x/tools/go/ssa"
	"golang.org/x/tools/go/ssa/ssautil"
)

func exprCalls(e Expr, out map[string]bool) {
	switch x := e.(type) {
	case EUn:
		exprCalls(x.X, out)
	case EBin:
		exprCalls(x.L, out)
		exprCalls(x.R, out)
	case ECall:
		out[x.Fn] = true
		for _, a := range x.Args {
			exprCalls(a, out)
		}
	case ESel:
		exprCalls(x.X, out)
	case EIdx:
		exprCalls(x.X, out)
		exprCalls(x.I, out)
	case ESliceE:
		exprCalls(x.X, out)
		if x.Lo != nil {
			exprCalls(x.Lo, out)
		}
		if x.Hi != nil {
			exprCalls(x.Hi, out)
		}
	case EQuant:
		exprCalls(x.Body, out)
	}
}

func (eng *Engine) lemmaByName(name string) *Lemma {
	for _, l := range eng.contracts.Lemmas {
		if l.Name == name {
			return l
		}
	}
	return nil
}

// lemmaFormula: forall params. requires => ensures ; with args given, the instance.
func (eng *Engine) lemmaFormula(g *VCGen, l *Lemma, args []SpecVal) string {
	env := &SpecEnv{g: g, vars: map[string]SpecVal{}, pkg: eng.typesPkg(l.Pkg), cur: &State{heaps: map[string]string{}, nextRef: "0"}}
	var bs []string
	for i, p := range l.Params {
		s, gt := env.resolveSort(p.Type)
		if args != nil {
			if args[i].Sort != s {
				panic(specErr(fmt.Sprintf("lemma %s arg %d: expected %s got %s", l.Name, i, s, args[i].Sort)))
			}
			env.vars[p.Name] = SpecVal{args[i].T, s, gt}
		} else {
			env.vars[p.Name] = SpecVal{"l$" + p.Name, s, gt}
			bs = append(bs, fmt.Sprintf("(l$%s %s)", p.Name, s))
		}
	}
	var req, ens []string
	for _, c := range l.Requires {
		req = append(req, g.trClause(env, c))
	}
	for _, c := range l.Ensures {
		ens = append(ens, g.trClause(env, c))
	}
	body := implies(and(req...), and(ens...))
	if args != nil || len(bs) == 0 {
		return body
	}
	pat := ""
	if len(l.Pattern) > 0 {
		env.noUnfold = true
		for _, mp := range l.Pattern {
			var ps []string
			for _, p := range mp {
				ps = append(ps, env.tr(p.E).T)
			}
			pat += " :pattern (" + strings.Join(ps, " ") + ")"
		}
		return fmt.Sprintf("(forall (%s) (! %s%s))", strings.Join(bs, " "), body, pat)
	}
	return fmt.Sprintf("(forall (%s) %s)", strings.Join(bs, " "), body)
}

// lemmaFacts: lemmas and axioms visible to a function VC of package pkg, restricted to those that
// talk about spec functions already used in the VC.
func (eng *Engine) lemmaFacts(g *VCGen, pkg string, only map[string]bool) []string {
	var out []string
	used := eng.curSpecInfo(g)
	visible := map[string]bool{"": true, pkg: true}
	if tp := eng.typesPkg(pkg); tp != nil {
		var walk func(p *types.Package)
		walk = func(p *types.Package) {
			for _, imp := range p.Imports() {
				if !visible[imp.Path()] {
					visible[imp.Path()] = true
					walk(imp)
				}
			}
		}
		walk(tp)
	}
	for _, l := range eng.contracts.Lemmas {
		if !visible[l.Pkg] {
			continue
		}
		if only != nil && !only[l.Name] {
			continue
		}
		if hasProp(l.Props, "local") && l.Pkg != pkg && only == nil {
			// offered automatically only to functions of the lemma's own package
			continue
		}
		if hasProp(l.Props, "manual") || (len(l.Pattern) == 0 && len(l.Params) > 0 && only == nil) {
			// only lemmas written for automatic use (explicit patterns) are offered to the solver as quantified facts
			continue
		}
		calls := map[string]bool{}
		for _, c := range append(append([]Clause{}, l.Requires...), l.Ensures...) {
			exprCalls(c.E, calls)
		}
		relevant := false
		nspec := 0
		for c := range calls {
			if eng.specFn(c) != nil {
				nspec++
				if _, ok := used[c]; ok {
					relevant = true
				}
			}
		}
		if nspec > 0 && !relevant && only == nil {
			continue
		}
		out = append(out, eng.lemmaFormula(g, l, nil))
		if l.Axiom {
			g.usedTrusted["axiom "+l.Name] = true
		} else {
			g.usedCallees["lemma "+l.Name] = true
		}
	}
	return out
}

// verifyLemma proves a lemma: requires ∧ IH instances ∧ used lemma instances ⇒ ensures.
func (eng *Engine) verifyLemma(l *Lemma) (res FuncResult) {
	res.Func = "lemma " + l.Name
	res.Contract = fmt.Sprintf("%s:%d", l.File, l.Line)
	genMu.Lock()
	g := newVCGen(eng, nil, nil)
	g.so.special = eng.specialSortFor(g)
	var obls []Obligation
	var texts []string
	func() {
		defer genMu.Unlock()
		defer delete(eng.specInfos, g)
		defer func() {
			if res.Error == "" {
				for _, o := range obls {
					texts = append(texts, eng.queryText(g, o, nil))
				}
			}
		}()
		defer func() {
			if r := recover(); r != nil {
				switch e := r.(type) {
				case unsupportedErr:
					res.Error = "unsupported: " + string(e)
				case specErr:
					res.Error = "spec error: " + string(e)
				default:
					panic(r)
				}
			}
		}()
		env := &SpecEnv{g: g, vars: map[string]SpecVal{}, pkg: eng.typesPkg(l.Pkg), cur: &State{heaps: map[string]string{}, nextRef: "0"}}
		for _, p := range l.Params {
			s, gt := env.resolveSort(p.Type)
			name := g.declare("L!"+p.Name, s)
			env.vars[p.Name] = SpecVal{name, s, gt}
		}
		for _, c := range l.Requires {
			g.assume(g.trClause(env, c))
		}
		var measure string
		if l.Decr != nil {
			measure = env.tr(l.Decr.E).T
		}
		instArgs := func(c Clause) (string, []SpecVal) {
			call, ok := c.E.(ECall)
			if !ok {
				panic(specErr(fmt.Sprintf("%s:%d: expected name(args)", c.File, c.Line)))
			}
			var args []SpecVal
			for _, a := range call.Args {
				args = append(args, env.tr(a))
			}
			return call.Fn, args
		}
		for k, c := range l.Induct {
			name, args := instArgs(c)
			if name != l.Name {
				panic(specErr(fmt.Sprintf("%s:%d: induct must instantiate %s itself", c.File, c.Line, l.Name)))
			}
			if l.Decr == nil {
				panic(specErr(fmt.Sprintf("%s:%d: induct needs a decreases clause", c.File, c.Line)))
			}
			// measure of the instance
			ienv := env.with(nil)
			for i, p := range l.Params {
				ienv.vars[p.Name] = args[i]
			}
			im := ienv.tr(l.Decr.E).T
			var reqs []string
			for _, rc := range l.Requires {
				reqs = append(reqs, g.trClause(ienv, rc))
			}
			// the induction hypothesis is available only for instances with a smaller, well-founded measure
			_ = reqs
			_ = k
			g.assume(implies(fmt.Sprintf("(and (>= %s 0) (< %s %s))", measure, im, measure), eng.lemmaFormula(g, l, args)))
		}
		for _, c := range l.Uses {
			name, args := instArgs(c)
			ol := eng.lemmaByName(name)
			if ol == nil {
				panic(specErr(fmt.Sprintf("%s:%d: unknown lemma %s", c.File, c.Line, name)))
			}
			if len(args) == 0 && len(ol.Params) > 0 {
				g.assume(eng.lemmaFormula(g, ol, nil))
			} else {
				g.assume(eng.lemmaFormula(g, ol, args))
			}
			if ol.Axiom {
				g.usedTrusted["axiom "+ol.Name] = true
			} else {
				g.usedCallees["lemma "+ol.Name] = true
			}
		}
		// axioms are always available
		for _, ax := range eng.contracts.Lemmas {
			if ax.Axiom && (ax.Pkg == "" || ax.Pkg == l.Pkg) && ax != l {
				g.assume(eng.lemmaFormula(g, ax, nil))
				g.usedTrusted["axiom "+ax.Name] = true
			}
		}
		for k, c := range l.Ensures {
			obls = append(obls, Obligation{Name: fmt.Sprintf("ensures.%d", k), Kind: "lemma", Guard: "true", Goal: g.trGoal(env, c), NAssert: len(g.asserts), Text: c.Text, Func: res.Func})
		}
		obls = append(obls, Obligation{Name: "vacuity.requires", Kind: "cover", Guard: "true", Goal: "false", NAssert: len(g.asserts), Text: "lemma hypotheses are satisfiable", Func: res.Func})
	}()
	if res.Error != "" {
		return
	}
	for k := range g.usedTrusted {
		res.Trusted = append(res.Trusted, k)
	}
	for k := range g.usedCallees {
		res.Callees = append(res.Callees, k)
	}
	res.Obls = make([]OblResult, len(obls))
	parallelDo(len(obls), 6, func(i int) {
		o := obls[i]
		text := texts[i]
		name := "lemma." + l.Name + "#" + o.Name
		to := eng.timeoutS
		if o.Kind == "cover" {
			to = 1
		}
		r := solve(eng.workDir, name, text, to, coverOnly(o))
		or := OblResult{Obligation: o, Status: r.status, Backend: r.backend, TimeS: r.timeS, Output: r.output, File: eng.workDir + "/" + sanitizeFile(name) + ".smt2"}
		if o.Kind == "cover" {
			if r.status == "unsat" {
				or.Status = "vacuous"
			} else {
				or.Status = "unsat"
				if r.status != "sat" {
					or.Backend = "cover-undecided"
				}
			}
		}
		res.Obls[i] = or
	})
	return
}

// ---------------------------------------------------------------- interface calls

func (g *VCGen) invoke(c *ssa.CallCommon, pos token.Pos, v *ssa.Call) []SpecVal {
	fc := g.eng.ifaceContract(c)
	if fc == nil {
		if n, ok := c.Value.Type().(*types.Named); ok && n.Obj().Pkg() != nil && g.eng.contracts.ClosedIfaces[n.Obj().Pkg().Path()+"."+n.Obj().Name()] {
			return g.closedInvoke(n, c, pos, v)
		}
		panic(unsupported(fmt.Sprintf("interface call %s.%s without interface contract", c.Value.Type(), c.Method.Name())))
	}
	recv := g.val(c.Value)
	args := append([]SpecVal{recv}, g.argVals(c)...)
	sig := c.Method.Type().(*types.Signature)
	names := []string{"self"}
	for i := 0; i < sig.Params().Len(); i++ {
		n := sig.Params().At(i).Name()
		if n == "" || n == "_" {
			n = fmt.Sprintf("arg%d", i+1)
		}
		names = append(names, n)
	}
	var resTypes []types.Type
	var resNames []string
	for i := 0; i < sig.Results().Len(); i++ {
		resTypes = append(resTypes, sig.Results().At(i).Type())
		resNames = append(resNames, sig.Results().At(i).Name())
	}
	// calling a method on a nil interface panics
	goal := fmt.Sprintf("(not (= (if.tag %s) 0))", recv.T)
	g.oblige("nopanic.nilinvoke@"+c.Value.Name()+"."+c.Method.Name(), "nopanic", goal, "method call on nil interface", pos)
	g.assumeHere(goal)
	label := "invoke@" + c.Method.Name()
	if v != nil {
		label = "invoke@" + v.Name() + ":" + c.Method.Name()
	}
	g.usedCallees["interface "+fc.Name] = true
	preState := g.cur
	res := g.applyContract(fc, g.eng.typesPkg(fc.Pkg), names, args, resTypes, resNames, pos, label)
	if len(fc.RefinedBy) > 0 {
		res = g.refineInvoke(fc, c, preState, res, args, resTypes, pos, label)
	}
	if gname, ok := g.eng.contracts.Tracks[fc.Pkg+"::"+fc.Name]; ok {
		h := g.ghostHeap(gname)
		g.setHeap(g.cur, h, fmt.Sprintf("(store %s %s true)", g.heapTerm(g.cur, h), recv.T))
	}
	return res
}

// globalFacts: declared facts about package-level variables (checked read-only elsewhere).
func (g *VCGen) globalFacts(st *State) {
	for _, gc := range g.eng.contracts.Globals {
		env := &SpecEnv{g: g, vars: map[string]SpecVal{}, cur: st, old: st, pkg: g.eng.typesPkg(gc.Pkg)}
		g.assumeHere(g.trClause(env, gc.C))
	}
}

var _ = ssa.NewConst

// implementations of a closed interface: the concrete types that are ever converted to it
// (MakeInterface instructions anywhere in the loaded program). Values of the interface can only originate there
// (or from gob, which only produces the registered types, themselves converted in init).
func (eng *Engine) implementations(n *types.Named) []types.Type {
	key := qualTypeName(n)
	if r, ok := eng.implCache[key]; ok {
		return r
	}
	seen := map[string]types.Type{}
	for fn := range ssautil.AllFunctions(eng.prog) {
		for _, b := range fn.Blocks {
			for _, in := range b.Instrs {
				if mi, ok := in.(*ssa.MakeInterface); ok && types.Identical(mi.Type(), n) {
					seen[qualTypeName(mi.X.Type())] = mi.X.Type()
				}
			}
		}
	}
	var keys []string
	for k := range seen {
		keys = append(keys, k)
	}
	sort.Strings(keys)
	var out []types.Type
	for _, k := range keys {
		out = append(out, seen[k])
	}
	eng.implCache[key] = out
	return out
}

// closedInvoke: dynamic dispatch over all implementations of a closed (package-private) interface.
// Each case is evaluated under its own guard (dynamic type tag) using the implementation's contract
// (synthetic promotion wrappers are inlined). Implementations must not modify tracked state.
func (g *VCGen) closedInvoke(n *types.Named, c *ssa.CallCommon, pos token.Pos, v *ssa.Call) []SpecVal {
	recv := g.val(c.Value)
	goal := fmt.Sprintf("(not (= (if.tag %s) 0))", recv.T)
	g.oblige("nopanic.nilinvoke@"+c.Value.Name()+"."+c.Method.Name(), "nopanic", goal, "method call on nil interface", pos)
	g.assumeHere(goal)
	impls := g.eng.implementations(n)
	g.usedTrusted["closed world: only types of package "+n.Obj().Pkg().Name()+" implement "+n.Obj().Name()+" (no external implementation exists in the repository); interface values hold non-nil pointers"] = true
	sig := c.Method.Type().(*types.Signature)
	var resTypes []types.Type
	for i := 0; i < sig.Results().Len(); i++ {
		resTypes = append(resTypes, sig.Results().At(i).Type())
	}
	args := g.argVals(c)
	pc0 := g.pathCond
	st0 := g.cur
	var tagConds, okConds []string
	var caseRes [][]SpecVal
	for _, t := range impls {
		tag := g.so.typeTag(t)
		tc := fmt.Sprintf("(= (if.tag %s) %s)", recv.T, tag)
		tagConds = append(tagConds, tc)
		sel := g.eng.prog.MethodSets.MethodSet(t).Lookup(c.Method.Pkg(), c.Method.Name())
		if sel == nil {
			panic(unsupported("no method " + c.Method.Name() + " on " + t.String()))
		}
		fn := g.eng.prog.MethodValue(sel)
		if fn == nil {
			panic(unsupported("no SSA for method " + c.Method.Name() + " on " + t.String()))
		}
		g.pathCond = and(pc0, tc)
		g.cur = st0.clone()
		var rv SpecVal
		ts := g.so.sortOf(t)
		if ts == "Int" {
			rv = SpecVal{fmt.Sprintf("(if.ref %s)", recv.T), "Int", t}
			g.assumeHere(fmt.Sprintf("(> (if.ref %s) 0)", recv.T))
		} else {
			_, unbox := g.boxFns(ts)
			rv = SpecVal{fmt.Sprintf("(%s (if.ref %s))", unbox, recv.T), ts, t}
		}
		res := g.callFunction(fn, append([]SpecVal{rv}, args...), pos, "invoke@"+c.Method.Name()+":"+shortTypeName(t))
		for h, term := range g.cur.heaps {
			if st0.heaps[h] != term && g.heapTerm(st0, h) != term {
				panic(unsupported("implementation " + fn.String() + " of a closed interface modifies state"))
			}
		}
		okConds = append(okConds, g.pathCond)
		caseRes = append(caseRes, res)
	}
	g.cur = st0
	// exhaustiveness
	g.pathCond = pc0
	g.assumeHere(or(tagConds...))
	var results []SpecVal
	for j, t := range resTypes {
		s := g.so.sortOf(t)
		name := g.freshConst("inv!r", s)
		sv := SpecVal{name, s, t}
		g.rangeFact(sv)
		g.assumeHere(g.allocFact(name, t, g.cur))
		for k := range impls {
			if j < len(caseRes[k]) {
				g.assume(implies(okConds[k], fmt.Sprintf("(= %s %s)", name, caseRes[k][j].T)))
			}
		}
		results = append(results, sv)
	}
	g.pathCond = and(pc0, or(okConds...))
	return results
}

// callFunction: call of a concrete function with already-evaluated arguments: by contract, or by inlining
// (synthetic promotion wrappers and helpers declared 'inline').
func (g *VCGen) callFunction(fn *ssa.Function, args []SpecVal, pos token.Pos, label string) []SpecVal {
	if fc := g.eng.contractFor(fn); fc != nil {
		names := sigParamNames(fn.Signature)
		if len(fn.Params) == len(args) {
			for i, p := range fn.Params {
				names[i] = recvName(fn, i, p)
			}
		}
		var resTypes []types.Type
		var resNames []string
		for i := 0; i < fn.Signature.Results().Len(); i++ {
			resTypes = append(resTypes, fn.Signature.Results().At(i).Type())
			resNames = append(resNames, fn.Signature.Results().At(i).Name())
		}
		g.usedCallees[fn.String()] = true
		return g.applyContract(fc, g.eng.typesPkg(fc.Pkg), names, args, resTypes, resNames, pos, label)
	}
	if fn.Synthetic != "" || g.eng.isInline(fn) {
		return g.inlineCall(fn, args, pos)
	}
	panic(unsupported(fmt.Sprintf("call to %s which has no contract", fn.String())))
}

func (eng *Engine) isInline(fn *ssa.Function) bool {
	for _, k := range eng.contractKeys(fn) {
		if eng.contracts.Inline[k] {
			return true
		}
	}
	return false
}

// inlineCall executes a single-block function body in the current path.
func (g *VCGen) inlineCall(fn *ssa.Function, args []SpecVal, pos token.Pos) []SpecVal {
	g.inlineDepth++
	defer func() { g.inlineDepth-- }()
	if g.inlineDepth > 6 {
		panic(unsupported("inlining too deep at " + fn.String()))
	}
	if len(args) != len(fn.Params) {
		panic(unsupported("inline arity mismatch for " + fn.String()))
	}
	// constant arguments (used to resolve branches of the inlined body statically)
	consts := map[ssa.Value]*ssa.Const{}
	if ca := g.pendingInlineArgs; len(ca) == len(fn.Params) {
		for i, a := range ca {
			if c, ok := a.(*ssa.Const); ok {
				consts[fn.Params[i]] = c
			}
		}
	}
	g.pendingInlineArgs = nil
	for i, p := range fn.Params {
		g.vals[p] = SpecVal{args[i].T, g.so.sortOf(p.Type()), p.Type()}
	}
	constOf := func(v ssa.Value) *ssa.Const {
		if c, ok := v.(*ssa.Const); ok {
			return c
		}
		return consts[v]
	}
	b := fn.Blocks[0]
	for steps := 0; steps < 64; steps++ {
		var next *ssa.BasicBlock
		for _, in := range b.Instrs {
			switch x := in.(type) {
			case *ssa.Return:
				var out []SpecVal
				for _, r := range x.Results {
					out = append(out, g.val(r))
				}
				return out
			case *ssa.Phi:
				panic(unsupported("cannot inline " + fn.String() + ": not straight-line code"))
			case *ssa.Jump:
				next = b.Succs[0]
			case *ssa.If:
				// only branches decided by the constant arguments of this call
				bo, ok := x.Cond.(*ssa.BinOp)
				if !ok || (bo.Op != token.EQL && bo.Op != token.NEQ) {
					panic(unsupported("cannot inline " + fn.String() + ": not straight-line code"))
				}
				cx, cy := constOf(bo.X), constOf(bo.Y)
				if cx == nil || cy == nil || cx.Value == nil || cy.Value == nil {
					panic(unsupported("cannot inline " + fn.String() + ": not straight-line code"))
				}
				eq := constant.Compare(cx.Value, token.EQL, cy.Value)
				if bo.Op == token.NEQ {
					eq = !eq
				}
				if eq {
					next = b.Succs[0]
				} else {
					next = b.Succs[1]
				}
			default:
				if bo, ok := in.(*ssa.BinOp); ok && (bo.Op == token.EQL || bo.Op == token.NEQ) && constOf(bo.X) != nil && constOf(bo.Y) != nil {
					continue // a comparison of constants feeding a branch resolved above
				}
				g.instr(in)
			}
		}
		if next == nil {
			return nil
		}
		b = next
	}
	panic(unsupported("cannot inline " + fn.String() + ": too many blocks"))
}

// refineInvoke: the open-world interface contract has been applied (g.cur is its post-state, openRes its results).
// For every receiver type listed in 'refinedby', the (separately verified) contract of that type's method is
// additionally available under the guard "dynamic type is T and T's precondition holds": in that case the
// post-state is the one described by T's modifies/ensures clauses.
func (g *VCGen) refineInvoke(fc *FuncContract, c *ssa.CallCommon, pre *State, openRes []SpecVal, args []SpecVal, resTypes []types.Type, pos token.Pos, label string) []SpecVal {
	postOpen := g.cur
	env0 := &SpecEnv{g: g, pkg: g.eng.typesPkg(fc.Pkg)}
	type cand struct {
		guard string
		post  *State
		res   []SpecVal
	}
	var cands []cand
	recv := args[0]
	for _, tn := range fc.RefinedBy {
		_, gt := env0.resolveSort(tn)
		if gt == nil {
			panic(specErr("refinedby: unknown type " + tn))
		}
		sel := g.eng.prog.MethodSets.MethodSet(gt).Lookup(c.Method.Pkg(), c.Method.Name())
		if sel == nil {
			continue
		}
		fn := g.eng.prog.MethodValue(sel)
		if fn == nil {
			continue
		}
		cfc := g.eng.contractFor(fn)
		if cfc == nil || cfc.HasPreserves {
			continue
		}
		var rv SpecVal
		ts := g.so.sortOf(gt)
		if ts == "Int" {
			rv = SpecVal{fmt.Sprintf("(if.ref %s)", recv.T), "Int", gt}
		} else {
			_, unbox := g.boxFns(ts)
			rv = SpecVal{fmt.Sprintf("(%s (if.ref %s))", unbox, recv.T), ts, gt}
		}
		names := sigParamNames(fn.Signature)
		if len(fn.Params) == len(args) {
			for i, p := range fn.Params {
				names[i] = recvName(fn, i, p)
			}
		}
		cargs := append([]SpecVal{rv}, args[1:]...)
		penv := &SpecEnv{g: g, vars: map[string]SpecVal{}, cur: pre, old: pre, pkg: g.eng.typesPkg(cfc.Pkg)}
		for i, n := range names {
			if i < len(cargs) {
				penv.vars[n] = cargs[i]
			}
		}
		guards := []string{fmt.Sprintf("(= (if.tag %s) %s)", recv.T, g.so.typeTag(gt))}
		if ts == "Int" {
			guards = append(guards, fmt.Sprintf("(not (= (if.ref %s) 0))", recv.T))
		}
		for _, r := range cfc.Requires {
			guards = append(guards, g.trClause(penv, r))
		}
		if cfc.PanicsIff != nil {
			guards = append(guards, not(g.trClause(penv, *cfc.PanicsIff)))
		}
		guard := g.freshConst("refine!guard", "Bool")
		g.assume(fmt.Sprintf("(= %s %s)", guard, and(guards...)))
		g.cur = pre
		post := g.havocFor(pre, g.modLocs(penv, cfc.Modifies), true)
		var results []SpecVal
		var resNames []string
		for i, t := range resTypes {
			s := g.so.sortOf(t)
			name := g.freshConst(smtSym(label)+"!c"+fmt.Sprint(i), s)
			sv := SpecVal{name, s, t}
			results = append(results, sv)
			g.rangeFact(sv)
			resNames = append(resNames, fn.Signature.Results().At(i).Name())
		}
		qenv := &SpecEnv{g: g, vars: penv.vars, cur: post, old: pre, pkg: penv.pkg, results: results, resNames: resNames}
		for _, e := range cfc.Ensures {
			g.assume(implies(guard, g.trClause(qenv, e)))
		}
		g.usedCallees[fn.String()+" (under its dynamic type)"] = true
		cands = append(cands, cand{guard, post, results})
	}
	if len(cands) == 0 {
		g.cur = postOpen
		return openRes
	}
	var gs []string
	for _, cd := range cands {
		gs = append(gs, cd.guard)
	}
	none := not(or(gs...))
	merged := postOpen.clone()
	names := map[string]bool{}
	for h := range postOpen.heaps {
		names[h] = true
	}
	for h := range pre.heaps {
		names[h] = true
	}
	for h := range g.so.heaps {
		names[h] = true
	}
	for _, cd := range cands {
		for h := range cd.post.heaps {
			names[h] = true
		}
	}
	for h := range names {
		if g.immutableHeap(h) {
			continue
		}
		open := g.heapTerm(postOpen, h)
		same := true
		for _, cd := range cands {
			if g.heapTerm(cd.post, h) != open {
				same = false
			}
		}
		if same {
			continue
		}
		name := g.freshName(h + "@refine")
		g.declare(name, g.so.heaps[h])
		g.assume(implies(none, fmt.Sprintf("(= %s %s)", name, open)))
		for _, cd := range cands {
			g.assume(implies(cd.guard, fmt.Sprintf("(= %s %s)", name, g.heapTerm(cd.post, h))))
		}
		merged.heaps[h] = name
	}
	nr := g.freshConst("nextRef@refine", "Int")
	g.assume(implies(none, fmt.Sprintf("(= %s %s)", nr, postOpen.nextRef)))
	for _, cd := range cands {
		g.assume(implies(cd.guard, fmt.Sprintf("(= %s %s)", nr, cd.post.nextRef)))
	}
	merged.nextRef = nr
	g.cur = merged
	var out []SpecVal
	for i, t := range resTypes {
		s := g.so.sortOf(t)
		name := g.freshConst(smtSym(label)+"!m"+fmt.Sprint(i), s)
		g.assume(implies(none, fmt.Sprintf("(= %s %s)", name, openRes[i].T)))
		for _, cd := range cands {
			g.assume(implies(cd.guard, fmt.Sprintf("(= %s %s)", name, cd.res[i].T)))
		}
		sv := SpecVal{name, s, t}
		g.rangeFact(sv)
		g.assumeHere(g.allocFact(name, t, merged))
		out = append(out, sv)
	}
	return out
}
