package main

import (
	"fmt"
	"go/token"
	"go/types"
	"strings"

	"golang.org/x/tools/go/ssa"
)

type intrinsicDef struct {
	name   string
	allocs bool
	heaps  func(g *VCGen, c *ssa.CallCommon) []string
	apply  func(g *VCGen, c *ssa.CallCommon, pos token.Pos, v *ssa.Call) []SpecVal
}

const immPkg = "github.com/benbjohnson/immutable"
const tlaPkg = "github.com/DistCompiler/pgo/distsys/tla"

func isNamedIn(t types.Type, pkg, name string) (*types.Named, bool) {
	if p, ok := t.(*types.Pointer); ok {
		t = p.Elem()
	}
	n, ok := t.(*types.Named)
	if !ok || n.Obj().Pkg() == nil {
		return nil, false
	}
	if n.Obj().Pkg().Path() == pkg && n.Obj().Name() == name {
		return n, true
	}
	return nil, false
}

func isTLAValue(t types.Type) bool {
	_, ok := isNamedIn(t, tlaPkg, "Value")
	if _, isPtr := t.(*types.Pointer); isPtr {
		return false
	}
	return ok
}

// keyAbs: sort under which keys of type K are compared by the hasher, and the abstraction term.
func (g *VCGen) keyAbs(k types.Type) (string, func(string) string) {
	if isTLAValue(k) {
		g.ensureSpecFn("abs")
		return "Val", func(t string) string { return "(sp.abs " + t + ")" }
	}
	return g.so.sortOf(k), func(t string) string { return t }
}

func (g *VCGen) ensureSpecFn(name string) {
	sf := g.eng.specFn(name)
	if sf == nil {
		panic(unsupported("prelude spec function " + name + " missing"))
	}
	g.specFnInfo(sf)
}

type imapInfo struct {
	sort, ks, vs string
	kabs         func(string) string
	k, v         types.Type
}

func (g *VCGen) imap(k, v types.Type) *imapInfo {
	ks, kabs := g.keyAbs(k)
	vs := g.so.sortOf(v)
	name := "IMap!" + smtSym(ks) + "!" + smtSym(vs)
	inf := &imapInfo{name, ks, vs, kabs, k, v}
	if g.imapBySort == nil {
		g.imapBySort = map[string]*imapInfo{}
	}
	g.imapBySort[name] = inf
	if !g.so.done[name] {
		g.so.done[name] = true
		g.so.decls = append(g.so.decls, fmt.Sprintf("(declare-datatypes ((%s 0)) (((mk!%s (%s.isnil Bool) (%s.dom (Array %s Bool)) (%s.val (Array %s %s)) (%s.len Int)))))", name, name, name, name, ks, name, ks, vs, name))
		// wf: the value is a map the library can produce (Len is the cardinality of the key set); the datatype
		// itself is freely generated, so facts about Len must be conditional on wf
		g.so.decls = append(g.so.decls, fmt.Sprintf("(declare-fun %s.wf (%s) Bool)", name, name))
		specialZero[name] = fmt.Sprintf("(mk!%s true ((as const (Array %s Bool)) false) ((as const (Array %s %s)) %s) 0)", name, ks, ks, vs, g.so.zero(v))
		g.eng.lenFns[name] = name + ".len"
	}
	return inf
}

func (inf *imapInfo) empty(g *VCGen) string {
	return fmt.Sprintf("(mk!%s false ((as const (Array %s Bool)) false) ((as const (Array %s %s)) %s) 0)", inf.sort, inf.ks, inf.ks, inf.vs, g.so.zero(inf.v))
}

func (inf *imapInfo) fact(t string) string {
	s := inf.sort
	return fmt.Sprintf("(and (%s.wf %s) (>= (%s.len %s) 0) (forall ((k %s)) (! (=> (select (%s.dom %s) k) (> (%s.len %s) 0)) :pattern ((select (%s.dom %s) k)))))", s, t, s, t, inf.ks, s, t, s, t, s, t)
}

type ilistInfo struct {
	sort, vs string
	v        types.Type
}

func (g *VCGen) ilist(v types.Type) *ilistInfo {
	vs := g.so.sortOf(v)
	name := "IList!" + smtSym(vs)
	if !g.so.done[name] {
		g.so.done[name] = true
		g.so.decls = append(g.so.decls, fmt.Sprintf("(declare-datatypes ((%s 0)) (((mk!%s (%s.isnil Bool) (%s.len Int) (%s.at (Array Int %s))))))", name, name, name, name, name, vs))
		specialZero[name] = fmt.Sprintf("(mk!%s true 0 ((as const (Array Int %s)) %s))", name, vs, g.so.zero(v))
		g.eng.lenFns[name] = name + ".len"
	}
	if g.ilistBySort == nil {
		g.ilistBySort = map[string]*ilistInfo{}
	}
	g.ilistBySort[name] = &ilistInfo{name, vs, v}
	return g.ilistBySort[name]
}

func (inf *ilistInfo) empty(g *VCGen) string {
	return fmt.Sprintf("(mk!%s false 0 ((as const (Array Int %s)) %s))", inf.sort, inf.vs, g.so.zero(inf.v))
}

// specialSortFor: library types modelled as values.
func (eng *Engine) specialSortFor(g *VCGen) func(t types.Type) (string, bool) {
	return func(t types.Type) (string, bool) {
		p, ok := t.(*types.Pointer)
		if !ok {
			return "", false
		}
		n, ok := p.Elem().(*types.Named)
		if !ok || n.Obj().Pkg() == nil || n.Obj().Pkg().Path() != immPkg {
			return "", false
		}
		ta := n.TypeArgs()
		switch n.Obj().Name() {
		case "Map":
			return g.imap(ta.At(0), ta.At(1)).sort, true
		case "List":
			return g.ilist(ta.At(0)).sort, true
		}
		return "", false
	}
}

// typeFact for special sorts
func (g *VCGen) specialFact(term string, t types.Type) string {
	p, ok := t.(*types.Pointer)
	if !ok {
		return "true"
	}
	n, ok := p.Elem().(*types.Named)
	if !ok || n.Obj().Pkg() == nil || n.Obj().Pkg().Path() != immPkg {
		return "true"
	}
	ta := n.TypeArgs()
	switch n.Obj().Name() {
	case "Map":
		return g.imap(ta.At(0), ta.At(1)).fact(term)
	case "List":
		s := g.ilist(ta.At(0)).sort
		return fmt.Sprintf("(>= (%s.len %s) 0)", s, term)
	}
	return "true"
}

// iterator / builder heaps
func (g *VCGen) mapIterHeap(inf *imapInfo) (heap, st string) {
	st = "MapIt!" + inf.sort[5:]
	if !g.so.done[st] {
		g.so.done[st] = true
		g.so.decls = append(g.so.decls, fmt.Sprintf("(declare-datatypes ((%s 0)) (((mk!%s (%s.m %s) (%s.seen (Array %s Bool)) (%s.n Int)))))", st, st, st, inf.sort, st, inf.ks, st))
	}
	return g.so.heap("HIT!"+inf.sort[5:], "(Array Int "+st+")"), st
}

func (g *VCGen) listIterHeap(inf *ilistInfo) (heap, st string) {
	st = "ListIt!" + inf.sort[6:]
	if !g.so.done[st] {
		g.so.done[st] = true
		g.so.decls = append(g.so.decls, fmt.Sprintf("(declare-datatypes ((%s 0)) (((mk!%s (%s.l %s) (%s.idx Int)))))", st, st, st, inf.sort, st))
	}
	return g.so.heap("HLI!"+inf.sort[6:], "(Array Int "+st+")"), st
}

func (g *VCGen) mapBuilderHeap(inf *imapInfo) string {
	return g.so.heap("HMB!"+inf.sort[5:], "(Array Int "+inf.sort+")")
}

func (g *VCGen) listBuilderHeap(inf *ilistInfo) string {
	return g.so.heap("HLB!"+inf.sort[6:], "(Array Int "+inf.sort+")")
}

func immRecv(callee *ssa.Function) (tname string, ta *types.TypeList, ok bool) {
	if callee.Signature.Recv() == nil {
		return
	}
	t := callee.Signature.Recv().Type()
	if p, isP := t.(*types.Pointer); isP {
		t = p.Elem()
	}
	n, isN := t.(*types.Named)
	if !isN || n.Obj().Pkg() == nil || n.Obj().Pkg().Path() != immPkg {
		return
	}
	return n.Obj().Name(), n.TypeArgs(), true
}

func (eng *Engine) intrinsic(callee *ssa.Function) *intrinsicDef {
	full := callee.String()
	if d, ok := simpleIntrinsics[full]; ok {
		return d
	}
	if tn, ta, ok := immRecv(callee); ok {
		name := callee.Name()
		if i := strings.Index(name, "["); i > 0 {
			name = name[:i]
		}
		return immMethod(tn, name, ta)
	}
	if o := callee.Origin(); o != nil && o.Pkg != nil && o.Pkg.Pkg.Path() == immPkg {
		return immFunc(o.Name(), callee.TypeArgs())
	}
	return nil
}

func noHeaps(g *VCGen, c *ssa.CallCommon) []string { return nil }

func freshResult(g *VCGen, v *ssa.Call, idx int, t types.Type) SpecVal {
	s := g.so.sortOf(t)
	name := g.freshConst("ext!r", s)
	sv := SpecVal{name, s, t}
	g.rangeFact(sv)
	g.assumeHere(g.allocFact(name, t, g.cur))
	return sv
}

// pureExtern: external function without effects on tracked state; results unconstrained.
func pureExtern(desc string, nonNilResults bool) *intrinsicDef {
	return &intrinsicDef{name: desc, heaps: noHeaps, allocs: true, apply: func(g *VCGen, c *ssa.CallCommon, pos token.Pos, v *ssa.Call) []SpecVal {
		for _, a := range c.Args {
			if _, isAddr := g.addrs[a]; !isAddr {
				g.val(a)
			}
		}
		// allocation may happen
		nr := g.freshConst("nextRef@ext", "Int")
		g.assume(fmt.Sprintf("(>= %s %s)", nr, g.cur.nextRef))
		g.cur.nextRef = nr
		var out []SpecVal
		res := c.Signature().Results()
		for i := 0; i < res.Len(); i++ {
			sv := freshResult(g, v, i, res.At(i).Type())
			if nonNilResults && sv.Sort == "Iface" {
				g.assumeHere(fmt.Sprintf("(not (= (if.tag %s) 0))", sv.T))
			}
			if nonNilResults && sv.Sort == "Int" {
				if _, isPtr := res.At(i).Type().Underlying().(*types.Pointer); isPtr {
					g.assumeHere(fmt.Sprintf("(not (= %s 0))", sv.T))
				}
			}
			out = append(out, sv)
		}
		return out
	}}
}

// pureFn: external function that is a pure, deterministic function of its (scalar) arguments.
func pureFn(name string) *intrinsicDef {
	return &intrinsicDef{name: name + " is a pure deterministic function of its arguments", heaps: noHeaps, apply: func(g *VCGen, c *ssa.CallCommon, pos token.Pos, v *ssa.Call) []SpecVal {
		var sorts, terms []string
		for _, a := range c.Args {
			av := g.val(a)
			sorts = append(sorts, av.Sort)
			terms = append(terms, av.T)
		}
		rt := c.Signature().Results().At(0).Type()
		rs := g.so.sortOf(rt)
		fn := "ext." + smtSym(name)
		if !g.so.done[fn] {
			g.so.done[fn] = true
			g.specDecls = append(g.specDecls, fmt.Sprintf("(declare-fun %s (%s) %s)", fn, strings.Join(sorts, " "), rs))
		}
		return []SpecVal{g.define(v, fmt.Sprintf("(%s %s)", fn, strings.Join(terms, " ")))}
	}}
}

// freshChan: external function returning a channel nobody else holds (time.After)
func freshChan(desc string) *intrinsicDef {
	return &intrinsicDef{name: desc, heaps: noHeaps, allocs: true, apply: func(g *VCGen, c *ssa.CallCommon, pos token.Pos, v *ssa.Call) []SpecVal {
		for _, a := range c.Args {
			g.val(a)
		}
		g.chanHeaps()
		r := g.newRef()
		g.setHeap(g.cur, chanCapHeap, fmt.Sprintf("(store %s %s 1)", g.heapTerm(g.cur, chanCapHeap), r))
		// the runtime is the sender: the number of sends on it is not known to this thread
		ns := g.freshConst("timer!sends", "Int")
		g.assumeHere(fmt.Sprintf("(>= %s 0)", ns))
		g.setHeap(g.cur, chanSendsHeap, fmt.Sprintf("(store %s %s %s)", g.heapTerm(g.cur, chanSendsHeap), r, ns))
		g.setHeap(g.cur, chanClosedHeap, fmt.Sprintf("(store %s %s false)", g.heapTerm(g.cur, chanClosedHeap), r))
		g.setHeap(g.cur, chanRecvsHeap, fmt.Sprintf("(store %s %s 0)", g.heapTerm(g.cur, chanRecvsHeap), r))
		return []SpecVal{{r, "Int", c.Signature().Results().At(0).Type()}}
	}}
}

// timeCmp: time.Time.After / Before compare an abstract key of the time value (a strict total preorder)
func timeCmp(op string) *intrinsicDef {
	return &intrinsicDef{name: "time.Time." + map[string]string{">": "After", "<": "Before"}[op] + " compares the instants (abstract key ext(\"timekey\", t))", heaps: noHeaps,
		apply: func(g *VCGen, c *ssa.CallCommon, pos token.Pos, v *ssa.Call) []SpecVal {
			a, b := g.val(c.Args[0]), g.val(c.Args[1])
			fn := "ext.timekey"
			if !g.so.done[fn] {
				g.so.done[fn] = true
				g.specDecls = append(g.specDecls, fmt.Sprintf("(declare-fun %s (%s) Int)", fn, a.Sort))
			}
			return []SpecVal{g.define(v, fmt.Sprintf("(%s (%s %s) (%s %s))", op, fn, a.T, fn, b.T))}
		}}
}

var simpleIntrinsics = map[string]*intrinsicDef{
	"(time.Time).After":  timeCmp(">"),
	"(time.Time).Before": timeCmp("<"),
	"time.After": freshChan("time.After returns a fresh channel (the runtime sends on it once, later)"),
	"go.uber.org/multierr.Append": {name: "multierr.Append(a, b) is nil exactly when both a and b are nil; no effect on tracked state", heaps: noHeaps, allocs: true,
		apply: func(g *VCGen, c *ssa.CallCommon, pos token.Pos, v *ssa.Call) []SpecVal {
			a, b := g.val(c.Args[0]), g.val(c.Args[1])
			nr := g.freshConst("nextRef@ext", "Int")
			g.assume(fmt.Sprintf("(>= %s %s)", nr, g.cur.nextRef))
			g.cur.nextRef = nr
			sv := freshResult(g, v, 0, c.Signature().Results().At(0).Type())
			g.assumeHere(fmt.Sprintf("(= (= (if.tag %s) 0) (and (= (if.tag %s) 0) (= (if.tag %s) 0)))", sv.T, a.T, b.T))
			return []SpecVal{sv}
		}},
	"github.com/segmentio/fasthash/fnv1a.HashUint32":   pureFn("fnv1a.HashUint32"),
	"github.com/segmentio/fasthash/fnv1a.HashString32": pureFn("fnv1a.HashString32"),
	"github.com/segmentio/fasthash/fnv1a.AddUint32":    pureFn("fnv1a.AddUint32"),
	"fmt.Errorf":   pureExtern("fmt.Errorf returns a fresh non-nil error and has no effect on tracked state", true),
	"fmt.Sprintf":  pureExtern("fmt.Sprintf has no effect on tracked state", false),
	"fmt.Sprint":   pureExtern("fmt.Sprint has no effect on tracked state", false),
	"fmt.Println":  pureExtern("fmt.Println has no effect on tracked state", false),
	"fmt.Printf":   pureExtern("fmt.Printf has no effect on tracked state", false),
	"errors.New":   pureExtern("errors.New returns a fresh non-nil error", true),
	"math/rand.Uint32": pureExtern("math/rand.Uint32 returns an arbitrary uint32", false),
	"log.Printf":   pureExtern("log.Printf has no effect on tracked state", false),
	"log.Println":  pureExtern("log.Println has no effect on tracked state", false),
	"time.NewTicker":         pureExtern("time.NewTicker returns a non-nil ticker", true),
	"(*net/rpc.Client).Go":   pureExtern("(*rpc.Client).Go returns a non-nil *Call; the reply object is shared with the RPC machinery (its content is not tracked)", true),
	"time.Now":     pureExtern("time.Now returns an arbitrary time", false),
	"time.Sleep":   pureExtern("time.Sleep has no effect on tracked state", false),
	"(*sync.Mutex).Lock":      lockIntrinsic("Lock"),
	"(*sync.Mutex).Unlock":    lockIntrinsic("Unlock"),
	"(*sync.RWMutex).Lock":    lockIntrinsic("Lock"),
	"(*sync.RWMutex).Unlock":  lockIntrinsic("Unlock"),
	"(*sync.RWMutex).RLock":   lockIntrinsic("RLock"),
	"(*sync.RWMutex).RUnlock": lockIntrinsic("RUnlock"),
}

// lockIntrinsic: mutex operations. Sequentially they have no effect on tracked state; the monitor rule
// (DESIGN 2.4 R2) hooks in here when the mutex is declared as a monitor.
func lockIntrinsic(op string) *intrinsicDef {
	return &intrinsicDef{name: "sync mutex " + op + ": no effect on tracked state (mutual exclusion itself is trusted)", heaps: noHeaps,
		apply: func(g *VCGen, c *ssa.CallCommon, pos token.Pos, v *ssa.Call) []SpecVal {
			g.eng.concurrency.lockOp(g, op, c, pos)
			return nil
		}}
}

func init() {
	for k, v := range simpleIntrinsics {
		if v == nil {
			delete(simpleIntrinsics, k)
		}
	}
}

func immFunc(name string, ta []types.Type) *intrinsicDef {
	switch name {
	case "NewMap", "NewMapBuilder":
		return &intrinsicDef{name: "immutable." + name + ": empty map keyed by the supplied Hasher (trusted library model; conditional on the Hasher contract)", allocs: true,
			heaps: func(g *VCGen, c *ssa.CallCommon) []string {
				if name == "NewMapBuilder" {
					return []string{g.mapBuilderHeap(g.imap(ta[0], ta[1]))}
				}
				return nil
			},
			apply: func(g *VCGen, c *ssa.CallCommon, pos token.Pos, v *ssa.Call) []SpecVal {
				inf := g.imap(ta[0], ta[1])
				g.checkHasher(c.Args[0], ta[0])
				if name == "NewMap" {
					return []SpecVal{{inf.empty(g), inf.sort, v.Type()}}
				}
				r := g.newRef()
				heap := g.mapBuilderHeap(inf)
				g.setHeap(g.cur, heap, fmt.Sprintf("(store %s %s %s)", g.heapTerm(g.cur, heap), r, inf.empty(g)))
				return []SpecVal{{r, "Int", v.Type()}}
			}}
	case "NewList", "NewListBuilder":
		return &intrinsicDef{name: "immutable." + name + ": empty list (trusted library model)", allocs: true,
			heaps: func(g *VCGen, c *ssa.CallCommon) []string {
				if name == "NewListBuilder" {
					return []string{g.listBuilderHeap(g.ilist(ta[0]))}
				}
				return nil
			},
			apply: func(g *VCGen, c *ssa.CallCommon, pos token.Pos, v *ssa.Call) []SpecVal {
				inf := g.ilist(ta[0])
				if name == "NewList" {
					if len(c.Args) > 0 {
						if cst, ok := c.Args[0].(*ssa.Const); !ok || cst.Value != nil {
							panic(unsupported("immutable.NewList with initial values"))
						}
					}
					return []SpecVal{{inf.empty(g), inf.sort, v.Type()}}
				}
				r := g.newRef()
				heap := g.listBuilderHeap(inf)
				g.setHeap(g.cur, heap, fmt.Sprintf("(store %s %s %s)", g.heapTerm(g.cur, heap), r, inf.empty(g)))
				return []SpecVal{{r, "Int", v.Type()}}
			}}
	}
	return nil
}

func (g *VCGen) checkHasher(h ssa.Value, k types.Type) {
	if isTLAValue(k) {
		if _, ok := isNamedIn(hasherConcrete(h), tlaPkg, "ValueHasher"); !ok {
			panic(unsupported("immutable map over tla.Value with a hasher other than tla.ValueHasher: " + h.String()))
		}
		return
	}
	g.warnings = append(g.warnings, "immutable map keyed by "+k.String()+": hasher assumed to implement Go equality")
}

func hasherConcrete(h ssa.Value) types.Type {
	if mi, ok := h.(*ssa.MakeInterface); ok {
		return mi.X.Type()
	}
	return h.Type()
}

func (g *VCGen) imNonNil(m SpecVal, inf *imapInfo, v ssa.Value, pos token.Pos, what string) {
	goal := fmt.Sprintf("(not (%s.isnil %s))", inf.sort, m.T)
	g.oblige("nopanic.nil@"+what, "nopanic", goal, "nil *immutable.Map dereference", pos)
	g.assumeHere(goal)
}

func (g *VCGen) imSet(inf *imapInfo, m, kabs, val string) string {
	s := inf.sort
	return fmt.Sprintf("(mk!%s false (store (%s.dom %s) %s true) (store (%s.val %s) %s %s) (+ (%s.len %s) (ite (select (%s.dom %s) %s) 0 1)))", s, s, m, kabs, s, m, kabs, val, s, m, s, m, kabs)
}

func (g *VCGen) imDelete(inf *imapInfo, m, kabs string) string {
	s := inf.sort
	return fmt.Sprintf("(mk!%s false (store (%s.dom %s) %s false) (%s.val %s) (- (%s.len %s) (ite (select (%s.dom %s) %s) 1 0)))", s, s, m, kabs, s, m, s, m, s, m, kabs)
}

func (g *VCGen) imGet(inf *imapInfo, m, kabs string, v *ssa.Call) []SpecVal {
	s := inf.sort
	okc := g.freshConst("imget!ok", "Bool")
	g.assume(fmt.Sprintf("(= %s (select (%s.dom %s) %s))", okc, s, m, kabs))
	rv := g.freshConst("imget!v", inf.vs)
	g.assume(fmt.Sprintf("(= %s (ite %s (select (%s.val %s) %s) %s))", rv, okc, s, m, kabs, g.so.zero(inf.v)))
	sv := SpecVal{rv, inf.vs, inf.v}
	g.rangeFact(sv)
	g.assumeHere(g.allocFact(rv, inf.v, g.cur))
	return []SpecVal{sv, {okc, "Bool", types.Typ[types.Bool]}}
}

func immMethod(tn, method string, ta *types.TypeList) *intrinsicDef {
	desc := fmt.Sprintf("immutable.%s.%s (trusted library model)", tn, method)
	switch tn {
	case "Map":
		return &intrinsicDef{name: desc, allocs: method == "Iterator",
			heaps: func(g *VCGen, c *ssa.CallCommon) []string {
				if method == "Iterator" {
					h, _ := g.mapIterHeap(g.imap(ta.At(0), ta.At(1)))
					return []string{h}
				}
				return nil
			},
			apply: func(g *VCGen, c *ssa.CallCommon, pos token.Pos, v *ssa.Call) []SpecVal {
				inf := g.imap(ta.At(0), ta.At(1))
				m := g.val(c.Args[0])
				g.imNonNil(m, inf, c.Args[0], pos, c.Args[0].Name()+"."+method)
				s := inf.sort
				switch method {
				case "Len":
					sv := g.define(v, fmt.Sprintf("(%s.len %s)", s, m.T))
					return []SpecVal{sv}
				case "Get":
					k := g.val(c.Args[1])
					return g.imGet(inf, m.T, inf.kabs(k.T), v)
				case "Set":
					k, val := g.val(c.Args[1]), g.val(c.Args[2])
					sv := g.define(v, g.imSet(inf, m.T, inf.kabs(k.T), val.T))
					return []SpecVal{sv}
				case "Delete":
					k := g.val(c.Args[1])
					sv := g.define(v, g.imDelete(inf, m.T, inf.kabs(k.T)))
					return []SpecVal{sv}
				case "Iterator":
					heap, st := g.mapIterHeap(inf)
					r := g.newRef()
					g.setHeap(g.cur, heap, fmt.Sprintf("(store %s %s (mk!%s %s ((as const (Array %s Bool)) false) 0))", g.heapTerm(g.cur, heap), r, st, m.T, inf.ks))
					return []SpecVal{{r, "Int", v.Type()}}
				}
				panic(unsupported("immutable.Map." + method))
			}}
	case "MapIterator":
		return &intrinsicDef{name: desc + ": visits every key of the map exactly once, in an unspecified order (seen-set model)",
			heaps: func(g *VCGen, c *ssa.CallCommon) []string {
				if method == "Next" || method == "First" {
					h, _ := g.mapIterHeap(g.imap(ta.At(0), ta.At(1)))
					return []string{h}
				}
				return nil
			},
			apply: func(g *VCGen, c *ssa.CallCommon, pos token.Pos, v *ssa.Call) []SpecVal {
				inf := g.imap(ta.At(0), ta.At(1))
				heap, st := g.mapIterHeap(inf)
				it := g.val(c.Args[0])
				g.nilCheck(c.Args[0], it.T, pos)
				cell := fmt.Sprintf("(select %s %s)", g.heapTerm(g.cur, heap), it.T)
				m := fmt.Sprintf("(%s.m %s)", st, cell)
				seen := fmt.Sprintf("(%s.seen %s)", st, cell)
				n := fmt.Sprintf("(%s.n %s)", st, cell)
				dom := fmt.Sprintf("(%s.dom %s)", inf.sort, m)
				ln := fmt.Sprintf("(%s.len %s)", inf.sort, m)
				done := fmt.Sprintf("(>= %s %s)", n, ln)
				// model invariant (trusted): 0 <= n <= len, seen subset of dom, n = len <=> seen = dom
				g.assumeHere(fmt.Sprintf("(and (<= 0 %s) (<= %s %s))", n, n, ln))
				g.assumeHere(fmt.Sprintf("(=> %s (forall ((k %s)) (! (=> (select %s k) (select %s k)) :pattern ((select %s k)))))", done, inf.ks, dom, seen, dom))
				switch method {
				case "Done":
					return []SpecVal{g.define(v, done)}
				case "Next":
					kabs := g.freshConst("itnext!k", inf.ks)
					g.assumeHere(fmt.Sprintf("(=> (not %s) (and (select %s %s) (not (select %s %s))))", done, dom, kabs, seen, kabs))
					var key SpecVal
					if isTLAValue(inf.k) {
						kn := g.freshConst("itnext!key", g.so.sortOf(inf.k))
						g.assumeHere(fmt.Sprintf("(= %s (ite %s %s %s))", inf.kabs(kn), done, inf.kabs(g.so.zero(inf.k)), kabs))
						g.assumeHere(fmt.Sprintf("(=> %s (= %s %s))", done, kn, g.so.zero(inf.k)))
						key = SpecVal{kn, g.so.sortOf(inf.k), inf.k}
						g.assumeHere(g.allocFact(kn, inf.k, g.cur))
					} else {
						kn := g.freshConst("itnext!key", inf.ks)
						g.assumeHere(fmt.Sprintf("(= %s (ite %s %s %s))", kn, done, g.so.zero(inf.k), kabs))
						key = SpecVal{kn, inf.ks, inf.k}
						g.rangeFact(key)
					}
					val := g.freshConst("itnext!v", inf.vs)
					g.assumeHere(fmt.Sprintf("(= %s (ite %s %s (select (%s.val %s) %s)))", val, done, g.so.zero(inf.v), inf.sort, m, kabs))
					vv := SpecVal{val, inf.vs, inf.v}
					g.rangeFact(vv)
					g.assumeHere(g.allocFact(val, inf.v, g.cur))
					okc := g.freshConst("itnext!ok", "Bool")
					g.assume(fmt.Sprintf("(= %s (not %s))", okc, done))
					h := g.heapTerm(g.cur, heap)
					g.setHeap(g.cur, heap, fmt.Sprintf("(ite %s %s (store %s %s (mk!%s %s (store %s %s true) (+ %s 1))))", done, h, h, it.T, st, m, seen, kabs, n))
					return []SpecVal{key, vv, {okc, "Bool", types.Typ[types.Bool]}}
				}
				panic(unsupported("immutable.MapIterator." + method))
			}}
	case "MapBuilder":
		return &intrinsicDef{name: desc, allocs: method == "Iterator",
			heaps: func(g *VCGen, c *ssa.CallCommon) []string {
				switch method {
				case "Set", "Delete", "Map":
					return []string{g.mapBuilderHeap(g.imap(ta.At(0), ta.At(1)))}
				case "Iterator":
					h, _ := g.mapIterHeap(g.imap(ta.At(0), ta.At(1)))
					return []string{h}
				}
				return nil
			},
			apply: func(g *VCGen, c *ssa.CallCommon, pos token.Pos, v *ssa.Call) []SpecVal {
				inf := g.imap(ta.At(0), ta.At(1))
				heap := g.mapBuilderHeap(inf)
				b := g.val(c.Args[0])
				g.nilCheck(c.Args[0], b.T, pos)
				h := g.heapTerm(g.cur, heap)
				cur := fmt.Sprintf("(select %s %s)", h, b.T)
				// using a builder after Map() panics in the library (nil map): obligation
				g.imNonNil(SpecVal{T: cur}, inf, c.Args[0], pos, c.Args[0].Name()+"."+method)
				switch method {
				case "Set":
					k, val := g.val(c.Args[1]), g.val(c.Args[2])
					g.setHeap(g.cur, heap, fmt.Sprintf("(store %s %s %s)", h, b.T, g.imSet(inf, cur, inf.kabs(k.T), val.T)))
					return nil
				case "Delete":
					k := g.val(c.Args[1])
					g.setHeap(g.cur, heap, fmt.Sprintf("(store %s %s %s)", h, b.T, g.imDelete(inf, cur, inf.kabs(k.T))))
					return nil
				case "Get":
					k := g.val(c.Args[1])
					return g.imGet(inf, cur, inf.kabs(k.T), v)
				case "Len":
					return []SpecVal{g.define(v, fmt.Sprintf("(%s.len %s)", inf.sort, cur))}
				case "Iterator":
					// the library returns an iterator over the builder's current map
					iheap, st := g.mapIterHeap(inf)
					r := g.newRef()
					g.setHeap(g.cur, iheap, fmt.Sprintf("(store %s %s (mk!%s %s ((as const (Array %s Bool)) false) 0))", g.heapTerm(g.cur, iheap), r, st, cur, inf.ks))
					return []SpecVal{{r, "Int", v.Type()}}
				case "Map":
					res := g.freshConst("built", inf.sort)
					g.assume(fmt.Sprintf("(= %s %s)", res, cur))
					// builder becomes unusable
					g.setHeap(g.cur, heap, fmt.Sprintf("(store %s %s %s)", h, b.T, specialZero[inf.sort]))
					return []SpecVal{{res, inf.sort, v.Type()}}
				}
				panic(unsupported("immutable.MapBuilder." + method))
			}}
	case "List":
		return &intrinsicDef{name: desc, allocs: method == "Iterator",
			heaps: func(g *VCGen, c *ssa.CallCommon) []string {
				if method == "Iterator" {
					h, _ := g.listIterHeap(g.ilist(ta.At(0)))
					return []string{h}
				}
				return nil
			},
			apply: func(g *VCGen, c *ssa.CallCommon, pos token.Pos, v *ssa.Call) []SpecVal {
				inf := g.ilist(ta.At(0))
				l := g.val(c.Args[0])
				s := inf.sort
				goal := fmt.Sprintf("(not (%s.isnil %s))", s, l.T)
				g.oblige("nopanic.nil@"+c.Args[0].Name()+"."+method, "nopanic", goal, "nil *immutable.List dereference", pos)
				g.assumeHere(goal)
				ln := fmt.Sprintf("(%s.len %s)", s, l.T)
				at := fmt.Sprintf("(%s.at %s)", s, l.T)
				bounds := func(idx string, what string) {
					goal := fmt.Sprintf("(and (<= 0 %s) (< %s %s))", idx, idx, ln)
					g.oblige("nopanic.listindex@"+v.Name(), "nopanic", goal, "immutable.List."+what+": index out of bounds (library panic)", pos)
					g.assumeHere(goal)
				}
				switch method {
				case "Len":
					return []SpecVal{g.define(v, ln)}
				case "Get":
					i := g.val(c.Args[1])
					bounds(i.T, "Get")
					sv := g.define(v, fmt.Sprintf("(select %s %s)", at, i.T))
					g.assumeHere(g.allocFact(sv.T, inf.v, g.cur))
					return []SpecVal{sv}
				case "Set":
					i, val := g.val(c.Args[1]), g.val(c.Args[2])
					bounds(i.T, "Set")
					return []SpecVal{g.define(v, fmt.Sprintf("(mk!%s false %s (store %s %s %s))", s, ln, at, i.T, val.T))}
				case "Append":
					val := g.val(c.Args[1])
					return []SpecVal{g.define(v, fmt.Sprintf("(mk!%s false (+ %s 1) (store %s %s %s))", s, ln, at, ln, val.T))}
				case "Slice":
					a, b := g.val(c.Args[1]), g.val(c.Args[2])
					goal := fmt.Sprintf("(and (<= 0 %s) (<= %s %s) (<= %s %s))", a.T, a.T, b.T, b.T, ln)
					g.oblige("nopanic.listslice@"+v.Name(), "nopanic", goal, "immutable.List.Slice: bounds (library panic)", pos)
					g.assumeHere(goal)
					na := g.freshConst("lslice", "(Array Int "+inf.vs+")")
					g.assume(fmt.Sprintf("(forall ((i Int)) (! (= (select %s i) (select %s (+ i %s))) :pattern ((select %s i))))", na, at, a.T, na))
					return []SpecVal{g.define(v, fmt.Sprintf("(mk!%s false (- %s %s) %s)", s, b.T, a.T, na))}
				case "Iterator":
					heap, st := g.listIterHeap(inf)
					r := g.newRef()
					g.setHeap(g.cur, heap, fmt.Sprintf("(store %s %s (mk!%s %s 0))", g.heapTerm(g.cur, heap), r, st, l.T))
					return []SpecVal{{r, "Int", v.Type()}}
				}
				panic(unsupported("immutable.List." + method))
			}}
	case "ListIterator":
		return &intrinsicDef{name: desc + ": visits indices 0..Len-1 in order",
			heaps: func(g *VCGen, c *ssa.CallCommon) []string {
				if method == "Next" {
					h, _ := g.listIterHeap(g.ilist(ta.At(0)))
					return []string{h}
				}
				return nil
			},
			apply: func(g *VCGen, c *ssa.CallCommon, pos token.Pos, v *ssa.Call) []SpecVal {
				inf := g.ilist(ta.At(0))
				heap, st := g.listIterHeap(inf)
				it := g.val(c.Args[0])
				g.nilCheck(c.Args[0], it.T, pos)
				h := g.heapTerm(g.cur, heap)
				cell := fmt.Sprintf("(select %s %s)", h, it.T)
				l := fmt.Sprintf("(%s.l %s)", st, cell)
				idx := fmt.Sprintf("(%s.idx %s)", st, cell)
				ln := fmt.Sprintf("(%s.len %s)", inf.sort, l)
				done := fmt.Sprintf("(or (< %s 0) (>= %s %s))", idx, idx, ln)
				switch method {
				case "Done":
					return []SpecVal{g.define(v, done)}
				case "Next":
					ri := g.freshConst("litnext!i", "Int")
					g.assume(fmt.Sprintf("(= %s (ite %s (- 1) %s))", ri, done, idx))
					rv := g.freshConst("litnext!v", inf.vs)
					g.assume(fmt.Sprintf("(= %s (ite %s %s (select (%s.at %s) %s)))", rv, done, g.so.zero(inf.v), inf.sort, l, idx))
					vv := SpecVal{rv, inf.vs, inf.v}
					g.rangeFact(vv)
					g.assumeHere(g.allocFact(rv, inf.v, g.cur))
					g.setHeap(g.cur, heap, fmt.Sprintf("(ite %s %s (store %s %s (mk!%s %s (+ %s 1))))", done, h, h, it.T, st, l, idx))
					return []SpecVal{{ri, "Int", types.Typ[types.Int]}, vv}
				}
				panic(unsupported("immutable.ListIterator." + method))
			}}
	case "ListBuilder":
		return &intrinsicDef{name: desc,
			heaps: func(g *VCGen, c *ssa.CallCommon) []string {
				switch method {
				case "Append", "Set", "List":
					return []string{g.listBuilderHeap(g.ilist(ta.At(0)))}
				}
				return nil
			},
			apply: func(g *VCGen, c *ssa.CallCommon, pos token.Pos, v *ssa.Call) []SpecVal {
				inf := g.ilist(ta.At(0))
				heap := g.listBuilderHeap(inf)
				b := g.val(c.Args[0])
				g.nilCheck(c.Args[0], b.T, pos)
				h := g.heapTerm(g.cur, heap)
				cur := fmt.Sprintf("(select %s %s)", h, b.T)
				s := inf.sort
				goal := fmt.Sprintf("(not (%s.isnil %s))", s, cur)
				g.oblige("nopanic.nil@"+c.Args[0].Name()+"."+method, "nopanic", goal, "use of ListBuilder after List()", pos)
				g.assumeHere(goal)
				ln := fmt.Sprintf("(%s.len %s)", s, cur)
				at := fmt.Sprintf("(%s.at %s)", s, cur)
				switch method {
				case "Append":
					val := g.val(c.Args[1])
					g.setHeap(g.cur, heap, fmt.Sprintf("(store %s %s (mk!%s false (+ %s 1) (store %s %s %s)))", h, b.T, s, ln, at, ln, val.T))
					return nil
				case "Len":
					return []SpecVal{g.define(v, ln)}
				case "List":
					res := g.freshConst("builtlist", s)
					g.assume(fmt.Sprintf("(= %s %s)", res, cur))
					g.setHeap(g.cur, heap, fmt.Sprintf("(store %s %s %s)", h, b.T, specialZero[s]))
					return []SpecVal{{res, s, v.Type()}}
				}
				panic(unsupported("immutable.ListBuilder." + method))
			}}
	}
	return nil
}

// intrinsicSpec: spec-level accessors for library models.
func (g *VCGen) intrinsicSpec(env *SpecEnv, x ECall) (SpecVal, bool) {
	switch x.Fn {
	case "dom", "isnil", "get", "imhas", "seen", "itn", "itmap", "built", "litidx", "litlist", "at", "wfmap":
	default:
		return SpecVal{}, false
	}
	if len(x.Args) == 0 {
		return SpecVal{}, false
	}
	v := env.tr(x.Args[0])
	switch {
	case strings.HasPrefix(v.Sort, "IMap!"):
		minf := g.imapBySort[v.Sort]
		ks := minf.ks
		switch x.Fn {
		case "dom":
			return SpecVal{fmt.Sprintf("(%s.dom %s)", v.Sort, v.T), "(Array " + ks + " Bool)", nil}, true
		case "isnil":
			return SpecVal{fmt.Sprintf("(%s.isnil %s)", v.Sort, v.T), "Bool", nil}, true
		case "wfmap":
			return SpecVal{fmt.Sprintf("(%s.wf %s)", v.Sort, v.T), "Bool", nil}, true
		case "get":
			k := env.tr(x.Args[1])
			vs := minf.vs
			var vg types.Type
			if v.Go != nil {
				if n, ok := v.Go.(*types.Pointer).Elem().(*types.Named); ok {
					vg = n.TypeArgs().At(1)
				}
			}
			return SpecVal{fmt.Sprintf("(select (%s.val %s) %s)", v.Sort, v.T, k.T), vs, vg}, true
		case "imhas":
			k := env.tr(x.Args[1])
			return SpecVal{fmt.Sprintf("(select (%s.dom %s) %s)", v.Sort, v.T, k.T), "Bool", nil}, true
		}
	case strings.HasPrefix(v.Sort, "IList!"):
		switch x.Fn {
		case "isnil":
			return SpecVal{fmt.Sprintf("(%s.isnil %s)", v.Sort, v.T), "Bool", nil}, true
		case "at":
			i := env.tr(x.Args[1])
			vs := g.ilistBySort[v.Sort].vs
			var vg types.Type
			if v.Go != nil {
				if n, ok := v.Go.(*types.Pointer).Elem().(*types.Named); ok {
					vg = n.TypeArgs().At(0)
				}
			}
			return SpecVal{fmt.Sprintf("(select (%s.at %s) %s)", v.Sort, v.T, i.T), vs, vg}, true
		}
	}
	if v.Go != nil {
		if p, ok := v.Go.(*types.Pointer); ok {
			if n, ok := p.Elem().(*types.Named); ok && n.Obj().Pkg() != nil && n.Obj().Pkg().Path() == immPkg {
				ta := n.TypeArgs()
				switch n.Obj().Name() {
				case "MapIterator":
					inf := g.imap(ta.At(0), ta.At(1))
					heap, st := g.mapIterHeap(inf)
					cell := fmt.Sprintf("(select %s %s)", env.heapT(env.cur, heap), v.T)
					switch x.Fn {
					case "seen":
						return SpecVal{fmt.Sprintf("(%s.seen %s)", st, cell), "(Array " + inf.ks + " Bool)", nil}, true
					case "itn":
						return SpecVal{fmt.Sprintf("(%s.n %s)", st, cell), "Int", nil}, true
					case "itmap":
						return SpecVal{fmt.Sprintf("(%s.m %s)", st, cell), inf.sort, types.NewPointer(g.eng.immNamed("Map", ta.At(0), ta.At(1)))}, true
					}
				case "MapBuilder":
					inf := g.imap(ta.At(0), ta.At(1))
					heap := g.mapBuilderHeap(inf)
					if x.Fn == "built" {
						return SpecVal{fmt.Sprintf("(select %s %s)", env.heapT(env.cur, heap), v.T), inf.sort, types.NewPointer(g.eng.immNamed("Map", ta.At(0), ta.At(1)))}, true
					}
				case "ListBuilder":
					inf := g.ilist(ta.At(0))
					heap := g.listBuilderHeap(inf)
					if x.Fn == "built" {
						return SpecVal{fmt.Sprintf("(select %s %s)", env.heapT(env.cur, heap), v.T), inf.sort, types.NewPointer(g.eng.immNamed("List", ta.At(0)))}, true
					}
				case "ListIterator":
					inf := g.ilist(ta.At(0))
					heap, st := g.listIterHeap(inf)
					cell := fmt.Sprintf("(select %s %s)", env.heapT(env.cur, heap), v.T)
					switch x.Fn {
					case "litidx":
						return SpecVal{fmt.Sprintf("(%s.idx %s)", st, cell), "Int", nil}, true
					case "litlist":
						return SpecVal{fmt.Sprintf("(%s.l %s)", st, cell), inf.sort, types.NewPointer(g.eng.immNamed("List", ta.At(0)))}, true
					}
				}
			}
		}
	}
	env.fail("%s() not applicable to sort %s", x.Fn, v.Sort)
	return SpecVal{}, false
}
