package main

import (
	"bufio"
	"encoding/json"
	"fmt"
	"os"
	"path/filepath"
	"regexp"
	"sort"
	"strings"
	"time"
)

type knownFinding struct {
	Prop    string
	Pattern *regexp.Regexp
	Raw     string
	Desc    string
	Fixed   bool
}

// known_findings.txt lines:
//   finding: property=<id> obligation=<regexp over "Func#obligation"> <what fails>
//   fixed: property=<id> <commit> <what failed>
func loadKnownFindings(path string) ([]knownFinding, error) {
	f, err := os.Open(path)
	if err != nil {
		if os.IsNotExist(err) {
			return nil, nil
		}
		return nil, err
	}
	defer f.Close()
	var out []knownFinding
	sc := bufio.NewScanner(f)
	for sc.Scan() {
		line := strings.TrimSpace(sc.Text())
		if line == "" || strings.HasPrefix(line, "#") {
			continue
		}
		if strings.HasPrefix(line, "fixed:") {
			continue // a fixed entry suppresses nothing
		}
		if !strings.HasPrefix(line, "finding:") {
			return nil, fmt.Errorf("known_findings: bad line %q", line)
		}
		fs := strings.Fields(strings.TrimPrefix(line, "finding:"))
		kf := knownFinding{Raw: line}
		var rest []string
		for _, x := range fs {
			switch {
			case strings.HasPrefix(x, "property=") && kf.Prop == "":
				kf.Prop = strings.TrimPrefix(x, "property=")
			case strings.HasPrefix(x, "obligation=") && kf.Pattern == nil:
				re, err := regexp.Compile("^" + strings.TrimPrefix(x, "obligation=") + "$")
				if err != nil {
					return nil, fmt.Errorf("known_findings: %v", err)
				}
				kf.Pattern = re
			default:
				rest = append(rest, x)
			}
		}
		if kf.Prop == "" || kf.Pattern == nil {
			return nil, fmt.Errorf("known_findings: missing property= or obligation= in %q", line)
		}
		kf.Desc = strings.Join(rest, " ")
		out = append(out, kf)
	}
	return out, nil
}

type evObl struct {
	Name    string  `json:"name"`
	Kind    string  `json:"kind"`
	Status  string  `json:"status"`
	Backend string  `json:"backend"`
	TimeS   float64 `json:"time_s"`
	Text    string  `json:"clause,omitempty"`
	Pos     string  `json:"pos,omitempty"`
}

type evFunc struct {
	Func        string   `json:"function"`
	Contract    string   `json:"contract_at"`
	Obligations int      `json:"obligations"`
	Discharged  int      `json:"discharged"`
	Error       string   `json:"error,omitempty"`
	Callees     []string `json:"callee_contracts_used,omitempty"`
	Warnings    []string `json:"warnings,omitempty"`
	Obls        []evObl  `json:"obligation_list"`
}

func oblKey(r FuncResult, o OblResult) string {
	return shortName(r.Func) + "#" + o.Name
}

func shortName(f string) string {
	f = strings.ReplaceAll(f, "github.com/DistCompiler/pgo/distsys/", "")
	f = strings.ReplaceAll(f, "github.com/DistCompiler/pgo/", "")
	return f
}

type reportOpts struct {
	prop, tier, verif string
	seed              int
	start             time.Time
	extra             map[string]interface{}
	bounded           []map[string]interface{}
	extraViolations   []string
	extraAssumptions  []string
}

// writeReport prints the summary, VIOLATION / KNOWN-FINDING lines, writes evidence and replay files, returns exit code.
func (pr *PropRun) writeReport(eng *Engine, ro reportOpts) int {
	known, err := loadKnownFindings(filepath.Join(ro.verif, "known_findings.txt"))
	if err != nil {
		fmt.Fprintln(os.Stderr, err)
		return 2
	}
	sort.Slice(pr.Results, func(i, j int) bool { return pr.Results[i].Func < pr.Results[j].Func })
	total, ok := 0, 0
	var funcs []evFunc
	trusted := map[string]bool{}
	backends := map[string]int{}
	solverTime := 0.0
	var samples []interface{}
	violations := 0
	knownHit := map[string]bool{}
	replayDir := filepath.Join(ro.verif, "replay", "out")
	os.MkdirAll(replayDir, 0755)
	// replay files of earlier runs of this property describe another tree: remove them
	if old, err := filepath.Glob(filepath.Join(replayDir, sanitizeFile(ro.prop+".")+"*.json")); err == nil {
		for _, f := range old {
			os.Remove(f)
		}
	}
	var vioLines []string
	for _, r := range pr.Results {
		ef := evFunc{Func: shortName(r.Func), Contract: strings.TrimPrefix(r.Contract, "/repo/"), Error: r.Error, Callees: r.Callees, Warnings: r.Warnings}
		for _, t := range r.Trusted {
			trusted[t] = true
		}
		if r.Error != "" {
			// a contracted function that cannot be translated or has disappeared cannot be shown to satisfy its property
			key := shortName(r.Func) + "#translate"
			if kf := matchKnown(known, ro.prop, key); kf != nil {
				knownHit[kf.Raw] = true
			} else {
				violations++
				path := filepath.Join(replayDir, sanitizeFile(ro.prop+"."+key)+".json")
				writeJSON(path, map[string]interface{}{"property": ro.prop, "obligation": key, "status": "undecided", "reason": r.Error,
					"note": "the function under contract could not be brought under the verifier on the current source; no failing input was derived"})
				vioLines = append(vioLines, fmt.Sprintf("VIOLATION property=%s replay=%s obligation=%s no-failing-input-found", ro.prop, path, key))
			}
			fmt.Printf("ERROR  %s: %s\n", shortName(r.Func), r.Error)
			total++
			ef.Obligations = 1
			funcs = append(funcs, ef)
			continue
		}
		for _, o := range r.Obls {
			total++
			ef.Obligations++
			solverTime += o.TimeS
			eo := evObl{Name: o.Name, Kind: o.Kind, Status: o.Status, Backend: o.Backend, TimeS: round3(o.TimeS), Text: o.Text}
			if o.Pos.IsValid() {
				eo.Pos = fmt.Sprintf("%s:%d", strings.TrimPrefix(o.Pos.Filename, "/repo/"), o.Pos.Line)
			}
			if o.Status == "unsat" {
				ok++
				ef.Discharged++
				backends[o.Backend]++
				if len(samples) < 6 && o.Kind != "cover" && o.Kind != "nopanic" {
					samples = append(samples, map[string]interface{}{"obligation": oblKey(r, o), "kind": o.Kind, "clause": o.Text, "backend": o.Backend, "time_s": round3(o.TimeS)})
				}
			} else {
				key := oblKey(r, o)
				if kf := matchKnown(known, ro.prop, key); kf != nil {
					knownHit[kf.Raw] = true
					eo.Status = "known-finding:" + o.Status
				} else {
					violations++
					path := filepath.Join(replayDir, sanitizeFile(ro.prop+"."+key)+".json")
					rep := map[string]interface{}{"property": ro.prop, "obligation": key, "kind": o.Kind, "clause": o.Text, "position": eo.Pos,
						"solver_status": o.Status, "solver_output": firstLines(o.Output, 60)}
					suffix := " no-failing-input-found"
					if cex := eng.tryReplay(r, o, rep); cex {
						suffix = ""
					}
					writeJSON(path, rep)
					vioLines = append(vioLines, fmt.Sprintf("VIOLATION property=%s replay=%s obligation=%s%s", ro.prop, path, key, suffix))
				}
			}
			ef.Obls = append(ef.Obls, eo)
		}
		status := "OK"
		if ef.Discharged != ef.Obligations {
			status = "FAIL"
		}
		fmt.Printf("%-6s %s: %d/%d obligations discharged\n", status, ef.Func, ef.Discharged, ef.Obligations)
		if eng.verbose {
			for _, o := range r.Obls {
				fmt.Printf("    %-8s %-40s %-10s %.2fs  %s\n", o.Status, o.Name, o.Backend, o.TimeS, o.Text)
			}
		}
		funcs = append(funcs, ef)
	}
	for _, v := range ro.extraViolations {
		violations++
		vioLines = append(vioLines, v)
	}
	// known findings that no longer fail are simply not printed (the check passes on the repaired tree)
	var knownLines []string
	for _, kf := range known {
		if kf.Prop == ro.prop && knownHit[kf.Raw] {
			knownLines = append(knownLines, fmt.Sprintf("KNOWN-FINDING: property=%s %s", kf.Prop, kf.Desc))
		}
	}
	for _, l := range knownLines {
		fmt.Println(l)
	}
	for _, l := range vioLines {
		fmt.Println(l)
	}
	var tb []string
	for t := range trusted {
		tb = append(tb, t)
	}
	sort.Strings(tb)
	tb = append([]string{
		"go/packages + go/ssa (x/tools v0.29.0) represent the semantics of the Go source in /repo (evaluation order, implicit conversions, method resolution)",
		"the VC generator /verif/engine (weakest-precondition style, passified SSA, typed heaps, mathematical Int with explicit wrap on every machine operation)",
		"SMT solvers z3 4.8.12, z3 5.1.0, cvc5 1.0 (an obligation counts when any one answers unsat)",
	}, tb...)
	assumptions := append([]string{}, ro.extraAssumptions...)
	for _, t := range tb[3:] {
		assumptions = append(assumptions, "trusted: "+t)
	}
	for _, f := range funcs {
		for _, w := range f.Warnings {
			assumptions = append(assumptions, "unchecked in "+f.Func+": "+w)
		}
	}
	if len(knownLines) > 0 {
		assumptions = append(assumptions, fmt.Sprintf("%d obligation(s) are listed in known_findings.txt and are NOT counted as discharged", countKnown(funcs)))
	}
	nKnown := countKnown(funcs)
	cov := map[string]interface{}{
		"obligations":  total - nKnown,
		"discharged":   ok,
		"checker_cmd":  fmt.Sprintf("/verif/bin/pgoverify check -prop %s -tier %s (VCs generated from /repo's working tree by go/ssa; each obligation is tried first on the subset of its freshly generated hypotheses named by hints.json — back ends marked +hint; thorough tier: +confirmed:<solver of the other family> —, then in full on z3-new, z3, cvc5 and a seed/option portfolio; timeout %ds per solver run)", ro.prop, ro.tier, eng.timeoutS),
		"trusted_base": tb,
		"samples":      samples,
		"functions_under_contract": funcs,
		"backends":     backends,
		"solver_time_s": round3(solverTime),
		"load_s":       round3(eng.loadS),
		"known_finding_obligations": nKnown,
		"integers":     "mathematical Int; every Go machine operation wrapped to its width (overflow modelled, not assumed away)",
	}
	if len(ro.bounded) > 0 {
		cov["bounded_standins"] = ro.bounded
	}
	for k, v := range ro.extra {
		cov[k] = v
	}
	ev := map[string]interface{}{
		"property_id": ro.prop,
		"tier":        ro.tier,
		"seed":        ro.seed,
		"level":       "proof",
		"coverage":    cov,
		"assumptions": assumptions,
		"wall_s":      round3(time.Since(ro.start).Seconds()),
		"violations":  violations,
	}
	os.MkdirAll(filepath.Join(ro.verif, "evidence"), 0755)
	writeJSON(filepath.Join(ro.verif, "evidence", ro.prop+".json"), ev)
	fmt.Printf("property %s: %d/%d obligations discharged (%d known findings), %d violation(s), wall %.1fs\n", ro.prop, ok, total-nKnown, nKnown, violations, time.Since(ro.start).Seconds())
	if violations > 0 {
		return 1
	}
	if ok == 0 {
		fmt.Println("no obligations were generated: refusing to report success (vacuity guard)")
		return 2
	}
	return 0
}

func countKnown(funcs []evFunc) int {
	n := 0
	for _, f := range funcs {
		for _, o := range f.Obls {
			if strings.HasPrefix(o.Status, "known-finding:") {
				n++
			}
		}
	}
	return n
}

func matchKnown(known []knownFinding, prop, key string) *knownFinding {
	for i := range known {
		if known[i].Prop == prop && known[i].Pattern.MatchString(key) {
			return &known[i]
		}
	}
	return nil
}

func round3(x float64) float64 { return float64(int(x*1000+0.5)) / 1000 }

func writeJSON(path string, v interface{}) {
	data, err := json.MarshalIndent(v, "", " ")
	if err != nil {
		panic(err)
	}
	if err := os.WriteFile(path, append(data, '\n'), 0644); err != nil {
		fmt.Fprintln(os.Stderr, "cannot write", path, err)
	}
}

