package main

import (
	"fmt"
	"os"
	"path/filepath"
	"regexp"
	"strconv"
	"strings"
)

type Clause struct {
	Text string
	E    Expr
	File string
	Line int
}

type LoopContract struct {
	Invariants []Clause
	Decreases  *Clause
	Uses       []Clause // lemma instances assumed at the back edge (end of body); hdr(e) refers to header values
	ExitUses   []Clause // lemma instances assumed at the loop header (available in the body and after the loop)
	Asserts    []Clause // cut formulas: proved at every back edge (end of body), then assumed, before the invariants are checked
}

type FuncContract struct {
	Name      string // short name as written
	Pkg       string // package path the block belongs to ("" for trusted files: name is fully qualified)
	Requires  []Clause
	Ensures   []Clause
	CallbacksKeep []Clause // locations every open-world call made by this function is ASSUMED to leave unchanged (the object's own private state)
	GhostSets []GhostSet // "ghostset g E": calling the function sets ghost g to E (evaluated in the pre-state)
	AtReturn  []Clause // checked at every return with the function's local variables in scope; not visible to callers
	Modifies  []Clause
	Preserves []Clause // open-world callee: everything may change except these locations
	HasPreserves bool
	PanicsIff *Clause // nil: must not panic
	PanicKind string  // "tla" (default in package tla) | "any"
	MayPanic  bool    // callbacks may panic: panics are not constrained ("may panic")
	NoPanicAt []string // in a maypanic function: callees (or "explicit") whose panic must nevertheless be impossible
	Loops     map[int]*LoopContract
	Trusted   bool // contract is assumed, body not verified
	Props     []string
	File      string
	Line      int
	Uses      []Clause // lemma instantiations "use lemma(args)" at function level
	RefinedBy []string // interface contract: concrete receiver types whose verified contracts may be used under the dynamic type
	Before    map[string][]Clause // "before <Method>: E": obligation at every call of that method/function in the body
	Opaque    bool
}

type SpecFn struct {
	Name   string
	Params []Binder
	Ret    string
	Body   *Clause // nil: uninterpreted
	Rec    bool
	Raw    bool // declared by raw SMT in the prelude: keep the name
	Pkg    string
	File   string
	Line   int
}

type Lemma struct {
	Name     string
	Params   []Binder
	Requires []Clause
	Ensures  []Clause
	Induct   []Clause // each: comma separated arg list, instantiating the lemma (IH)
	Uses     []Clause // other lemma instantiations: name(args)
	Decr     *Clause
	Props    []string
	Pkg      string
	File     string
	Line     int
	Axiom    bool // stated without proof (listed as trusted)
	Pattern  [][]Clause // alternative (multi-)patterns
}

type Contracts struct {
	Funcs    map[string]*FuncContract // key: pkgpath + "::" + name
	SpecFns  []*SpecFn
	Lemmas   []*Lemma
	RawSMT   []string // raw prelude lines in order
	Immut    map[string]bool // pkgpath.TypeName
	Closed   map[string][]string
	Files    []string
	FuncList []*FuncContract
	Globals  []GlobalFact
	Ghosts   []ghostDecl
	ClosedIfaces map[string]bool   // pkgpath.Name
	FieldInvs    map[string]Clause // pkgpath.Type.field -> invariant over 'value'
	Inline       map[string]bool   // pkgpath::funcname : small helpers inlined at call sites
	SortAliases  map[string]SortAlias
	Tracks       map[string]string // pkg::(Iface).Method -> ghost set of receivers it was called on
	Monitors     map[string]*MonitorDecl // pkgpath.Type.field
	ChanInvs     map[string]ChanInv      // pkgpath.Type.field: invariant of the messages travelling through that channel field
	NeverSent    map[string]bool         // pkgpath.Type.field: channel-typed field nobody ever sends on (checked syntactically)
	ImmHeapTypes []SortAlias             // Go types whose heap is never written after construction (declared; stores are obligations)
}

type SortAlias struct {
	Name, Pkg, GoExpr string
}

// ChanInv: "chaninv T.f E" — E (over 'elem', the message, and 'self', the object holding the channel field) holds of
// every message sent on the channel stored in field f: an obligation at every send, an assumption at every receive.
type ChanInv struct {
	Pkg string
	C   Clause
}

type GhostSet struct {
	Name string
	C    Clause
}

type GlobalFact struct {
	Pkg string
	C   Clause
}

var clauseKeywords = map[string]bool{
	"func": true, "requires": true, "ensures": true, "atreturn": true, "ghostset": true, "modifies": true, "preserves": true, "callbackskeep": true, "refinedby": true, "monitor": true, "protects": true, "strict": true, "track": true, "before": true, "panics": true, "maypanic": true, "nopanic": true,
	"loop": true, "invariant": true, "decreases": true, "spec": true, "lemma": true, "induct": true,
	"smt": true, "smtlate": true, "closed": true, "neversent": true, "chaninv": true, "immutableheap": true, "fieldinv": true, "inline": true, "sort": true, "global": true, "package": true, "ghost": true, "type": true, "trusted": true, "props": true, "use": true, "hdruse": true, "assert": true, "axiom": true, "pattern": true, "opaque": true,
}

var reFuncHdr = regexp.MustCompile(`^func\s+(.+)$`)
var reLoop = regexp.MustCompile(`^loop\s+(\d+)\s*:?$`)
var reSpec = regexp.MustCompile(`^spec\s+(rec\s+)?([A-Za-z_][A-Za-z0-9_']*)\s*\(([^)]*)\)\s*(\S+)\s*(=\s*(.*))?$`)
var reLemma = regexp.MustCompile(`^(lemma|axiom)\s+([A-Za-z_][A-Za-z0-9_']*)\s*\(([^)]*)\)\s*$`)

func parseBinders(s string) ([]Binder, error) {
	s = strings.TrimSpace(s)
	if s == "" {
		return nil, nil
	}
	var out []Binder
	var pending []string
	for _, part := range strings.Split(s, ",") {
		f := strings.Fields(part)
		switch len(f) {
		case 1:
			pending = append(pending, f[0])
		case 2:
			pending = append(pending, f[0])
			for _, n := range pending {
				out = append(out, Binder{n, f[1]})
			}
			pending = nil
		default:
			return nil, fmt.Errorf("bad binder %q", part)
		}
	}
	if len(pending) > 0 {
		return nil, fmt.Errorf("binder without type: %v", pending)
	}
	return out, nil
}

// loadContractFile parses one file. If goFile, only lines beginning with //@ are considered.
func (cs *Contracts) loadContractFile(path string, pkg string, goFile bool) error {
	data, err := os.ReadFile(path)
	if err != nil {
		return err
	}
	cs.Files = append(cs.Files, path)
	type ln struct {
		text string
		no   int
	}
	var lines []ln
	for i, raw := range strings.Split(string(data), "\n") {
		if goFile {
			t := strings.TrimSpace(raw)
			if !strings.HasPrefix(t, "//@") {
				continue
			}
			raw = strings.TrimPrefix(t, "//@")
		} else {
			t := strings.TrimSpace(raw)
			if strings.HasPrefix(t, "#") || strings.HasPrefix(t, ";;") {
				continue
			}
		}
		if strings.TrimSpace(raw) == "" {
			continue
		}
		lines = append(lines, ln{raw, i + 1})
	}
	// merge continuation lines
	var merged []ln
	for _, l := range lines {
		t := strings.TrimSpace(l.text)
		first := strings.Fields(t)[0]
		first = strings.TrimSuffix(first, ":")
		if !clauseKeywords[first] && len(merged) > 0 {
			merged[len(merged)-1].text += " " + t
			continue
		}
		merged = append(merged, ln{t, l.no})
	}
	var curF *FuncContract
	var curLoop *LoopContract
	var curL *Lemma
	var curM *MonitorDecl
	mk := func(text string, no int) (Clause, error) {
		e, err := parseSpecExpr(text)
		if err != nil {
			return Clause{}, fmt.Errorf("%s:%d: %v", path, no, err)
		}
		return Clause{Text: text, E: e, File: path, Line: no}, nil
	}
	for _, l := range merged {
		t := l.text
		kw := strings.TrimSuffix(strings.Fields(t)[0], ":")
		rest := strings.TrimSpace(t[len(strings.Fields(t)[0]):])
		switch kw {
		case "smt":
			cs.RawSMT = append(cs.RawSMT, rest)
			curF, curLoop, curL = nil, nil, nil
		case "smtlate":
			cs.RawSMT = append(cs.RawSMT, "late:"+rest)
			curF, curLoop, curL = nil, nil, nil
		case "sort":
			i := strings.Index(rest, " ")
			if i < 0 {
				return fmt.Errorf("%s:%d: sort NAME GoType", path, l.no)
			}
			cs.SortAliases[rest[:i]] = SortAlias{rest[:i], pkg, strings.TrimSpace(rest[i:])}
			curF, curLoop, curL = nil, nil, nil
		case "immutableheap":
			cs.ImmHeapTypes = append(cs.ImmHeapTypes, SortAlias{Name: "imm:" + rest, Pkg: pkg, GoExpr: rest})
			curF, curLoop, curL = nil, nil, nil
		case "neversent":
			cs.NeverSent[pkg+"."+rest] = true
			curF, curLoop, curL = nil, nil, nil
		case "closed":
			cs.ClosedIfaces[pkg+"."+rest] = true
			curF, curLoop, curL = nil, nil, nil
		case "inline":
			cs.Inline[pkg+"::"+rest] = true
			curF, curLoop, curL = nil, nil, nil
		case "fieldinv":
			i := strings.Index(rest, " ")
			if i < 0 {
				return fmt.Errorf("%s:%d: fieldinv Type.field EXPR", path, l.no)
			}
			c, err := mk(strings.TrimSpace(rest[i:]), l.no)
			if err != nil {
				return err
			}
			cs.FieldInvs[pkg+"."+rest[:i]] = c
			curF, curLoop, curL = nil, nil, nil
		case "chaninv":
			i := strings.Index(rest, " ")
			if i < 0 {
				return fmt.Errorf("%s:%d: chaninv Type.field EXPR", path, l.no)
			}
			c, err := mk(strings.TrimSpace(rest[i:]), l.no)
			if err != nil {
				return err
			}
			cs.ChanInvs[pkg+"."+rest[:i]] = ChanInv{Pkg: pkg, C: c}
			curF, curLoop, curL = nil, nil, nil
		case "package":
			pkg = rest
			curF, curLoop, curL = nil, nil, nil
		case "global":
			c, err := mk(rest, l.no)
			if err != nil {
				return err
			}
			cs.Globals = append(cs.Globals, GlobalFact{pkg, c})
			curF, curLoop, curL = nil, nil, nil
		case "ghost":
			f := strings.Fields(rest)
			if len(f) != 2 {
				return fmt.Errorf("%s:%d: ghost NAME SORT", path, l.no)
			}
			cs.Ghosts = append(cs.Ghosts, ghostDecl{name: f[0], sort: f[1], pkg: pkg})
			curF, curLoop, curL = nil, nil, nil
		case "type":
			f := strings.Fields(rest)
			if len(f) >= 2 && f[1] == "immutable" {
				cs.Immut[pkg+"."+f[0]] = true
			} else {
				return fmt.Errorf("%s:%d: bad type clause", path, l.no)
			}
		case "func":
			m := reFuncHdr.FindStringSubmatch(t)
			if m == nil {
				return fmt.Errorf("%s:%d: bad func header", path, l.no)
			}
			name := strings.TrimSpace(m[1])
			curM = nil
			curF = &FuncContract{Name: name, Pkg: pkg, Loops: map[int]*LoopContract{}, File: path, Line: l.no}
			key := pkg + "::" + name
			if _, dup := cs.Funcs[key]; dup {
				return fmt.Errorf("%s:%d: duplicate contract for %s", path, l.no, name)
			}
			cs.Funcs[key] = curF
			cs.FuncList = append(cs.FuncList, curF)
			curLoop, curL = nil, nil
		case "trusted":
			if curF == nil {
				return fmt.Errorf("%s:%d: trusted outside func", path, l.no)
			}
			curF.Trusted = true
		case "opaque":
			if curF != nil {
				curF.Opaque = true
			}
		case "props":
			ps := strings.FieldsFunc(rest, func(r rune) bool { return r == ',' || r == ' ' })
			if curF != nil {
				curF.Props = ps
			} else if curL != nil {
				curL.Props = ps
			} else {
				return fmt.Errorf("%s:%d: props outside func/lemma", path, l.no)
			}
		case "ghostset":
			if curF == nil {
				return fmt.Errorf("%s:%d: ghostset outside func", path, l.no)
			}
			i := strings.Index(rest, " ")
			if i < 0 {
				return fmt.Errorf("%s:%d: ghostset NAME EXPR", path, l.no)
			}
			c, err := mk(strings.TrimSpace(rest[i:]), l.no)
			if err != nil {
				return err
			}
			curF.GhostSets = append(curF.GhostSets, GhostSet{rest[:i], c})
		case "atreturn":
			if curF == nil {
				return fmt.Errorf("%s:%d: atreturn outside func", path, l.no)
			}
			c, err := mk(rest, l.no)
			if err != nil {
				return err
			}
			curF.AtReturn = append(curF.AtReturn, c)
		case "requires", "ensures":
			c, err := mk(rest, l.no)
			if err != nil {
				return err
			}
			if curL != nil {
				if kw == "requires" {
					curL.Requires = append(curL.Requires, c)
				} else {
					curL.Ensures = append(curL.Ensures, c)
				}
			} else if curF != nil {
				if kw == "requires" {
					curF.Requires = append(curF.Requires, c)
				} else {
					curF.Ensures = append(curF.Ensures, c)
				}
			} else {
				return fmt.Errorf("%s:%d: %s outside func/lemma", path, l.no, kw)
			}
		case "modifies":
			if curF == nil {
				return fmt.Errorf("%s:%d: modifies outside func", path, l.no)
			}
			for _, part := range splitTopLevel(rest, ',') {
				c, err := mk(part, l.no)
				if err != nil {
					return err
				}
				curF.Modifies = append(curF.Modifies, c)
			}
		case "preserves":
			if curF == nil {
				return fmt.Errorf("%s:%d: preserves outside func", path, l.no)
			}
			curF.HasPreserves = true
			for _, part := range splitTopLevel(rest, ',') {
				c, err := mk(part, l.no)
				if err != nil {
					return err
				}
				curF.Preserves = append(curF.Preserves, c)
			}
		case "callbackskeep":
			if curF == nil {
				return fmt.Errorf("%s:%d: callbackskeep outside func", path, l.no)
			}
			for _, part := range splitTopLevel(rest, ',') {
				c, err := mk(part, l.no)
				if err != nil {
					return err
				}
				curF.CallbacksKeep = append(curF.CallbacksKeep, c)
			}
		case "refinedby":
			if curF == nil {
				return fmt.Errorf("%s:%d: refinedby outside func", path, l.no)
			}
			curF.RefinedBy = append(curF.RefinedBy, strings.FieldsFunc(rest, func(r rune) bool { return r == ',' || r == ' ' })...)
		case "before":
			if curF == nil {
				return fmt.Errorf("%s:%d: before outside func", path, l.no)
			}
			i := strings.Index(rest, ":")
			if i < 0 {
				return fmt.Errorf("%s:%d: before <callee>: EXPR", path, l.no)
			}
			c, err := mk(strings.TrimSpace(rest[i+1:]), l.no)
			if err != nil {
				return err
			}
			if curF.Before == nil {
				curF.Before = map[string][]Clause{}
			}
			name := strings.TrimSpace(rest[:i])
			curF.Before[name] = append(curF.Before[name], c)
		case "monitor":
			i := strings.Index(rest, ".")
			if i < 0 {
				return fmt.Errorf("%s:%d: monitor Type.field", path, l.no)
			}
			curM = &MonitorDecl{Pkg: pkg, Type: rest[:i], Field: strings.TrimSpace(rest[i+1:]), File: path, Line: l.no}
			cs.Monitors[pkg+"."+curM.Type+"."+curM.Field] = curM
			curF, curLoop, curL = nil, nil, nil
		case "strict":
			if curM == nil {
				return fmt.Errorf("%s:%d: strict outside monitor", path, l.no)
			}
			curM.Strict = true
		case "protects":
			if curM == nil {
				return fmt.Errorf("%s:%d: protects outside monitor", path, l.no)
			}
			for _, part := range splitTopLevel(rest, ',') {
				c, err := mk(part, l.no)
				if err != nil {
					return err
				}
				curM.Protects = append(curM.Protects, c)
			}
		case "track":
			f := strings.Fields(rest)
			if len(f) != 2 {
				return fmt.Errorf("%s:%d: track (Iface).Method ghostName", path, l.no)
			}
			cs.Tracks[pkg+"::"+f[0]] = f[1]
			curF, curLoop, curL = nil, nil, nil
		case "panics":
			if curF == nil {
				return fmt.Errorf("%s:%d: panics outside func", path, l.no)
			}
			r := rest
			kind := ""
			if strings.HasPrefix(r, "tla ") {
				kind = "tla"
				r = strings.TrimSpace(r[4:])
			} else if strings.HasPrefix(r, "any ") {
				kind = "any"
				r = strings.TrimSpace(r[4:])
			}
			if !strings.HasPrefix(r, "iff ") {
				return fmt.Errorf("%s:%d: expected 'panics [tla|any] iff E'", path, l.no)
			}
			c, err := mk(strings.TrimSpace(r[4:]), l.no)
			if err != nil {
				return err
			}
			curF.PanicsIff = &c
			curF.PanicKind = kind
		case "nopanic":
			if curF == nil {
				return fmt.Errorf("%s:%d: nopanic outside func", path, l.no)
			}
			curF.NoPanicAt = append(curF.NoPanicAt, strings.Fields(rest)...)
		case "maypanic":
			if curF == nil {
				return fmt.Errorf("%s:%d: maypanic outside func", path, l.no)
			}
			curF.MayPanic = true
		case "loop":
			m := reLoop.FindStringSubmatch(t)
			if m == nil || curF == nil {
				return fmt.Errorf("%s:%d: bad loop header", path, l.no)
			}
			n, _ := strconv.Atoi(m[1])
			curLoop = &LoopContract{}
			curF.Loops[n] = curLoop
		case "invariant":
			if curLoop == nil && curM != nil && curF == nil {
				c, err := mk(rest, l.no)
				if err != nil {
					return err
				}
				curM.Invariant = append(curM.Invariant, c)
				continue
			}
			if curLoop == nil {
				return fmt.Errorf("%s:%d: invariant outside loop", path, l.no)
			}
			c, err := mk(rest, l.no)
			if err != nil {
				return err
			}
			curLoop.Invariants = append(curLoop.Invariants, c)
		case "decreases":
			c, err := mk(rest, l.no)
			if err != nil {
				return err
			}
			if curLoop != nil {
				curLoop.Decreases = &c
			} else if curL != nil {
				curL.Decr = &c
			} else {
				return fmt.Errorf("%s:%d: decreases outside loop/lemma", path, l.no)
			}
		case "spec":
			m := reSpec.FindStringSubmatch(t)
			if m == nil {
				return fmt.Errorf("%s:%d: bad spec header: %s", path, l.no, t)
			}
			bs, err := parseBinders(m[3])
			if err != nil {
				return fmt.Errorf("%s:%d: %v", path, l.no, err)
			}
			sf := &SpecFn{Name: m[2], Params: bs, Ret: m[4], Rec: m[1] != "", Pkg: pkg, File: path, Line: l.no}
			if m[5] != "" {
				c, err := mk(m[6], l.no)
				if err != nil {
					return err
				}
				sf.Body = &c
			}
			cs.SpecFns = append(cs.SpecFns, sf)
			curF, curLoop, curL = nil, nil, nil
		case "lemma", "axiom":
			m := reLemma.FindStringSubmatch(t)
			if m == nil {
				return fmt.Errorf("%s:%d: bad lemma header", path, l.no)
			}
			bs, err := parseBinders(m[3])
			if err != nil {
				return fmt.Errorf("%s:%d: %v", path, l.no, err)
			}
			curL = &Lemma{Name: m[2], Params: bs, Pkg: pkg, File: path, Line: l.no, Axiom: m[1] == "axiom"}
			cs.Lemmas = append(cs.Lemmas, curL)
			curF, curLoop = nil, nil
		case "assert":
			c, err := mk(rest, l.no)
			if err != nil {
				return err
			}
			if curLoop == nil {
				return fmt.Errorf("%s:%d: assert outside loop", path, l.no)
			}
			curLoop.Asserts = append(curLoop.Asserts, c)
		case "hdruse":
			c, err := mk(rest, l.no)
			if err != nil {
				return err
			}
			if curLoop == nil {
				return fmt.Errorf("%s:%d: hdruse outside loop", path, l.no)
			}
			curLoop.ExitUses = append(curLoop.ExitUses, c)
		case "pattern":
			if curL == nil {
				return fmt.Errorf("%s:%d: pattern outside lemma", path, l.no)
			}
			var mp []Clause
			for _, part := range splitTopLevel(rest, ',') {
				c, err := mk(part, l.no)
				if err != nil {
					return err
				}
				mp = append(mp, c)
			}
			curL.Pattern = append(curL.Pattern, mp)
		case "induct", "use":
			c, err := mk(rest, l.no)
			if err != nil {
				return err
			}
			if curLoop != nil && kw == "use" {
				curLoop.Uses = append(curLoop.Uses, c)
			} else if curL != nil {
				switch kw {
				case "induct":
					curL.Induct = append(curL.Induct, c)
				case "use":
					curL.Uses = append(curL.Uses, c)
				}
			} else if curF != nil && kw == "use" {
				curF.Uses = append(curF.Uses, c)
			} else {
				return fmt.Errorf("%s:%d: %s outside lemma", path, l.no, kw)
			}
		default:
			return fmt.Errorf("%s:%d: unknown clause %q", path, l.no, kw)
		}
	}
	return nil
}

func splitTopLevel(s string, sep rune) []string {
	var out []string
	depth := 0
	start := 0
	for i, r := range s {
		switch r {
		case '(', '[':
			depth++
		case ')', ']':
			depth--
		default:
			if r == sep && depth == 0 {
				out = append(out, strings.TrimSpace(s[start:i]))
				start = i + 1
			}
		}
	}
	if strings.TrimSpace(s[start:]) != "" {
		out = append(out, strings.TrimSpace(s[start:]))
	}
	return out
}

func newContracts() *Contracts {
	return &Contracts{Funcs: map[string]*FuncContract{}, Immut: map[string]bool{}, Closed: map[string][]string{},
		ClosedIfaces: map[string]bool{}, FieldInvs: map[string]Clause{}, Inline: map[string]bool{}, SortAliases: map[string]SortAlias{}, Tracks: map[string]string{}, Monitors: map[string]*MonitorDecl{}, NeverSent: map[string]bool{}, ChanInvs: map[string]ChanInv{}}
}

// loadSpecDir loads *.spec files (trusted / prelude) from a directory, in name order.
func (cs *Contracts) loadSpecDir(dir string) error {
	ms, _ := filepath.Glob(filepath.Join(dir, "*.spec"))
	for _, m := range ms {
		if err := cs.loadContractFile(m, "", false); err != nil {
			return err
		}
	}
	return nil
}
