package main

import (
	"go/token"

	"golang.org/x/tools/go/ssa"
)

// concurrencyModel holds the thread-modular rules (DESIGN §2.4). Filled in incrementally.
type concurrencyModel struct{}

func (concurrencyModel) goInstr(g *VCGen, x *ssa.Go) {
	panic(unsupported("go statement"))
}
func (concurrencyModel) send(g *VCGen, x *ssa.Send) {
	panic(unsupported("channel send"))
}
func (concurrencyModel) selectI(g *VCGen, x *ssa.Select) {
	panic(unsupported("select"))
}
func (concurrencyModel) makeChan(g *VCGen, x *ssa.MakeChan) {
	panic(unsupported("make(chan)"))
}
func (concurrencyModel) recv(g *VCGen, x *ssa.UnOp) {
	panic(unsupported("channel receive"))
}
func (concurrencyModel) closeChan(g *VCGen, c *ssa.CallCommon, pos token.Pos) {
	panic(unsupported("close(chan)"))
}
