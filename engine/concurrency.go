package main

import (
	"fmt"
	"go/token"
	"go/types"

	"golang.org/x/tools/go/ssa"
)

// concurrencyModel holds the thread-modular rules (DESIGN §2.4). Filled in incrementally.
type concurrencyModel struct{}

func (concurrencyModel) goInstr(g *VCGen, x *ssa.Go) {
	panic(unsupported("go statement"))
}
func (concurrencyModel) send(g *VCGen, x *ssa.Send) {
	panic(unsupported("channel send"))
}
func (concurrencyModel) selectI(g *VCGen, x *ssa.Select) {
	panic(unsupported("select"))
}
func (concurrencyModel) makeChan(g *VCGen, x *ssa.MakeChan) {
	panic(unsupported("make(chan)"))
}
// receive: the value is arbitrary (sent by another thread); blocking is not modelled (partial correctness).
// A receive from a nil channel blocks forever: the path ends there.
func (concurrencyModel) recv(g *VCGen, x *ssa.UnOp) {
	ch := g.val(x.X)
	if x.CommaOk {
		et := x.X.Type().Underlying().(*types.Chan).Elem()
		s := g.so.sortOf(et)
		v := g.freshConst("recv!v", s)
		ok := g.freshConst("recv!ok", "Bool")
		sv := SpecVal{v, s, et}
		g.rangeFact(sv)
		g.assumeHere(g.allocFact(v, et, g.cur))
		g.tuples[x] = []SpecVal{sv, {ok, "Bool", types.Typ[types.Bool]}}
	} else {
		sv := g.havocVal(x)
		g.assumeHere(g.allocFact(sv.T, x.Type(), g.cur))
	}
	g.pathCond = and(g.pathCond, fmt.Sprintf("(not (= %s 0))", ch.T))
	g.usedTrusted["channel receive yields an arbitrary value of the element type; blocking is not modelled (partial correctness)"] = true
}
func (concurrencyModel) closeChan(g *VCGen, c *ssa.CallCommon, pos token.Pos) {
	panic(unsupported("close(chan)"))
}

func (concurrencyModel) lockOp(g *VCGen, op string, c *ssa.CallCommon, pos token.Pos) {
	// evaluate the receiver (nil check etc.)
	if len(c.Args) > 0 {
		g.val(c.Args[0])
	}
}
