package main

import (
	"fmt"
	"go/token"
	"go/types"
	"strings"

	"golang.org/x/tools/go/ssa"
	"golang.org/x/tools/go/ssa/ssautil"
)

// Thread-modular rules (DESIGN 2.4).
//
// Channels: three ghost maps indexed by the channel reference: capacity (fixed at make), the total number of
// sends performed so far, and the closed flag. len(ch) <= sends(ch), so "sends(ch) < cap(ch)" at a send implies
// that the send cannot block. Receives yield arbitrary values (they are produced by other threads).
// Monitors: "monitor T.f" declares which locations the mutex protects and the invariant; Lock havocs the
// protected locations and assumes the invariant, Unlock asserts it.
type concurrencyModel struct{}

const (
	chanCapHeap    = "HC!chan.cap"
	chanSendsHeap  = "HC!chan.sends"
	chanClosedHeap = "HC!chan.closed"
	chanRecvsHeap  = "HC!chan.recvs" // receives completed by the thread under verification
)

// lastRecvHeap: ghost map channel -> the value most recently received from it by the thread under verification
func (g *VCGen) lastRecvHeap(elemSort string) string {
	return g.so.heap("HC!last!"+smtSym(elemSort), "(Array Int "+elemSort+")")
}

func (g *VCGen) chanHeaps() {
	g.so.heap(chanCapHeap, "(Array Int Int)")
	g.so.heap(chanSendsHeap, "(Array Int Int)")
	g.so.heap(chanClosedHeap, "(Array Int Bool)")
	g.so.heap(chanRecvsHeap, "(Array Int Int)")
}

func (concurrencyModel) goInstr(g *VCGen, x *ssa.Go) {
	// the spawned thread runs concurrently: its effects are covered by the monitor/ownership rules, not here
	if g.fc == nil || !hasProp(g.fc.Props, "spawns") {
		panic(unsupported("go statement (contract must carry prop 'spawns' and the spawned code its own contract)"))
	}
	for _, a := range x.Call.Args {
		if _, isAddr := g.addrs[a]; !isAddr {
			g.val(a)
		}
	}
	// the spawned function starts in the current state: its preconditions are obligations of the go statement
	c := &x.Call
	if callee := c.StaticCallee(); callee != nil {
		if fc := g.eng.contractFor(callee); fc != nil {
			args := g.argVals(c)
			names := sigParamNames(callee.Signature)
			if len(callee.Params) == len(args) {
				for i, p := range callee.Params {
					names[i] = recvName(callee, i, p)
				}
			}
			if mc, ok := c.Value.(*ssa.MakeClosure); ok {
				for i, b := range mc.Bindings {
					names = append(names, callee.FreeVars[i].Name())
					if _, isAddr := g.addrs[b]; isAddr {
						args = append(args, g.escapeAddr(b))
					} else {
						args = append(args, g.val(b))
					}
				}
			}
			env := &SpecEnv{g: g, vars: map[string]SpecVal{}, cur: g.cur, old: g.cur, pkg: g.eng.typesPkg(fc.Pkg)}
			for i, n := range names {
				if i < len(args) {
					env.vars[n] = args[i]
				}
			}
			for k, rc := range fc.Requires {
				g.oblige(fmt.Sprintf("go@%s.requires.%d", callee.Name(), k), "requires", g.trGoal(env, rc), rc.Text, x.Pos())
			}
			g.usedCallees[callee.String()] = true
		} else {
			g.warnings = append(g.warnings, "go statement spawns "+callee.String()+" which has no contract")
		}
	}
	g.usedTrusted["go statements: the spawned goroutine is verified separately under the thread-modular rules"] = true
}

func (concurrencyModel) makeChan(g *VCGen, x *ssa.MakeChan) {
	g.chanHeaps()
	size := g.val(x.Size)
	r := g.newRef()
	g.setHeap(g.cur, chanCapHeap, fmt.Sprintf("(store %s %s %s)", g.heapTerm(g.cur, chanCapHeap), r, size.T))
	g.setHeap(g.cur, chanSendsHeap, fmt.Sprintf("(store %s %s 0)", g.heapTerm(g.cur, chanSendsHeap), r))
	g.setHeap(g.cur, chanClosedHeap, fmt.Sprintf("(store %s %s false)", g.heapTerm(g.cur, chanClosedHeap), r))
	g.setHeap(g.cur, chanRecvsHeap, fmt.Sprintf("(store %s %s 0)", g.heapTerm(g.cur, chanRecvsHeap), r))
	g.vals[x] = SpecVal{r, "Int", x.Type()}
}

func (cm concurrencyModel) send(g *VCGen, x *ssa.Send) {
	ch := g.val(x.Chan)
	sent := g.val(x.X)
	// "before send: E" — E may name the value being sent as 'sent' and the channel as 'sentto'
	g.beforeNamed("send", x.Pos(), x, map[string]SpecVal{"sent": sent, "sentto": ch})
	if inv, text, ok := g.chanInvFor(x.Chan, sent); ok {
		g.oblige("chaninv.send@"+x.Chan.Name(), "requires", inv, "message invariant of the channel: "+text, x.Pos())
	}
	if key := chanFieldKey(x.Chan); key != "" {
		// "before send.<field>: E" — only the sends on the channel stored in that field
		g.beforeNamed("send."+key[strings.LastIndex(key, ".")+1:], x.Pos(), x, map[string]SpecVal{"sent": sent, "sentto": ch})
	}
	cm.sendEffect(g, ch.T, x.Chan.Name(), x.Pos(), "true")
}

// sendEffect: obligations and ghost update of a send (guard: the select case chosen, or "true")
func (concurrencyModel) sendEffect(g *VCGen, ch, name string, pos token.Pos, guard string) {
	g.chanHeaps()
	save := g.pathCond
	g.pathCond = and(g.pathCond, guard)
	closed := fmt.Sprintf("(select %s %s)", g.heapTerm(g.cur, chanClosedHeap), ch)
	sends := fmt.Sprintf("(select %s %s)", g.heapTerm(g.cur, chanSendsHeap), ch)
	capT := fmt.Sprintf("(select %s %s)", g.heapTerm(g.cur, chanCapHeap), ch)
	g.oblige("nopanic.sendclosed@"+name, "nopanic", fmt.Sprintf("(or (= %s 0) (not %s))", ch, closed), "send on closed channel", pos)
	if g.fc != nil && hasProp(g.fc.Props, "nonblocking") {
		g.oblige("nonblocking.send@"+name, "nonblocking", fmt.Sprintf("(and (not (= %s 0)) (< %s %s))", ch, sends, capT), "send cannot block (fewer sends so far than the channel's capacity)", pos)
	}
	g.pathCond = save
	h := g.heapTerm(g.cur, chanSendsHeap)
	g.setHeap(g.cur, chanSendsHeap, fmt.Sprintf("(ite %s (store %s %s (+ %s 1)) %s)", guard, h, ch, sends, h))
	// a send on a nil channel blocks forever
	if guard == "true" {
		g.pathCond = and(g.pathCond, fmt.Sprintf("(not (= %s 0))", ch))
	}
}

// receive: the value is arbitrary (sent by another thread); blocking is not modelled (partial correctness).
// A receive from a nil channel blocks forever: the path ends there.
func (concurrencyModel) recv(g *VCGen, x *ssa.UnOp) {
	ch := g.val(x.X)
	if x.CommaOk {
		et := x.X.Type().Underlying().(*types.Chan).Elem()
		s := g.so.sortOf(et)
		v := g.freshConst("recv!v", s)
		ok := g.freshConst("recv!ok", "Bool")
		sv := SpecVal{v, s, et}
		g.rangeFact(sv)
		g.assumeHere(g.allocFact(v, et, g.cur))
		g.tuples[x] = []SpecVal{sv, {ok, "Bool", types.Typ[types.Bool]}}
		lh := g.lastRecvHeap(s)
		g.setHeap(g.cur, lh, fmt.Sprintf("(store %s %s %s)", g.heapTerm(g.cur, lh), ch.T, v))
		if inv, text, ok2 := g.chanInvFor(x.X, sv); ok2 {
			g.assumeHere(implies(ok, inv))
			g.usedTrusted["chaninv assumed at receive: "+text] = true
		}
	} else {
		sv := g.havocVal(x)
		g.assumeHere(g.allocFact(sv.T, x.Type(), g.cur))
		lh := g.lastRecvHeap(sv.Sort)
		g.setHeap(g.cur, lh, fmt.Sprintf("(store %s %s %s)", g.heapTerm(g.cur, lh), ch.T, sv.T))
		if inv, text, ok2 := g.chanInvFor(x.X, sv); ok2 {
			g.assumeHere(inv)
			g.usedTrusted["chaninv assumed at receive: "+text] = true
		}
	}
	g.pathCond = and(g.pathCond, fmt.Sprintf("(not (= %s 0))", ch.T))
	g.chanHeaps()
	{
		h := g.heapTerm(g.cur, chanRecvsHeap)
		g.setHeap(g.cur, chanRecvsHeap, fmt.Sprintf("(store %s %s (+ (select %s %s) 1))", h, ch.T, h, ch.T))
	}
	g.usedTrusted["channel receive yields an arbitrary value of the element type; blocking is not modelled (partial correctness)"] = true
	// a channel nobody ever sends on: a completed receive means it has been closed (and closed is stable)
	if key := chanFieldKey(x.X); key != "" && g.eng.contracts.NeverSent[key] {
		g.chanHeaps()
		if bad := g.eng.sendsOnField(key); bad != "" {
			g.oblige("neversent."+key, "monitor", "false", "declared 'neversent' but "+bad+" sends on it", x.Pos())
		}
		g.assumeHere(fmt.Sprintf("(select %s %s)", g.heapTerm(g.cur, chanClosedHeap), ch.T))
	}
}

// chanOwner: the object whose field holds the channel v (v is a load of a field address)
func (g *VCGen) chanOwner(v ssa.Value) (SpecVal, bool) {
	u, ok := v.(*ssa.UnOp)
	if !ok {
		return SpecVal{}, false
	}
	fa, ok := u.X.(*ssa.FieldAddr)
	if !ok {
		return SpecVal{}, false
	}
	return g.val(fa.X), true
}

// chanInvFor: the declared message invariant of the channel value v, instantiated for message elem
func (g *VCGen) chanInvFor(v ssa.Value, elem SpecVal) (string, string, bool) {
	key := chanFieldKey(v)
	if key == "" {
		return "", "", false
	}
	ci, ok := g.eng.contracts.ChanInvs[key]
	if !ok {
		return "", "", false
	}
	self, ok := g.chanOwner(v)
	if !ok {
		return "", "", false
	}
	env := &SpecEnv{g: g, vars: map[string]SpecVal{"elem": elem, "self": self}, cur: g.cur, old: g.cur, pkg: g.eng.typesPkg(ci.Pkg)}
	return g.trClause(env, ci.C), ci.C.Text, true
}

// chanFieldKey: "pkgpath.Type.field" if v is a load of a struct field
func chanFieldKey(v ssa.Value) string {
	u, ok := v.(*ssa.UnOp)
	if !ok {
		return ""
	}
	fa, ok := u.X.(*ssa.FieldAddr)
	if !ok {
		return ""
	}
	n, ok := fa.X.Type().Underlying().(*types.Pointer).Elem().(*types.Named)
	if !ok || n.Obj().Pkg() == nil {
		return ""
	}
	return n.Obj().Pkg().Path() + "." + n.Obj().Name() + "." + n.Underlying().(*types.Struct).Field(fa.Field).Name()
}

// sendsOnField: name of a function that sends on the channel stored in that field ("" if none)
func (eng *Engine) sendsOnField(key string) string {
	if r, ok := eng.sendCache[key]; ok {
		return r
	}
	res := ""
	for fn := range ssautil.AllFunctions(eng.prog) {
		for _, b := range fn.Blocks {
			for _, in := range b.Instrs {
				switch x := in.(type) {
				case *ssa.Send:
					if chanFieldKey(x.Chan) == key {
						res = fn.String()
					}
				case *ssa.Select:
					for _, st := range x.States {
						if st.Dir == types.SendOnly && chanFieldKey(st.Chan) == key {
							res = fn.String()
						}
					}
				}
			}
		}
	}
	eng.sendCache[key] = res
	return res
}

func (concurrencyModel) closeChan(g *VCGen, c *ssa.CallCommon, pos token.Pos) {
	g.chanHeaps()
	ch := g.val(c.Args[0])
	closed := fmt.Sprintf("(select %s %s)", g.heapTerm(g.cur, chanClosedHeap), ch.T)
	g.oblige("nopanic.closenil@"+c.Args[0].Name(), "nopanic", fmt.Sprintf("(not (= %s 0))", ch.T), "close of nil channel", pos)
	g.oblige("closeonce@"+c.Args[0].Name(), "nopanic", not(closed), "close of closed channel", pos)
	g.setHeap(g.cur, chanClosedHeap, fmt.Sprintf("(store %s %s true)", g.heapTerm(g.cur, chanClosedHeap), ch.T))
}

// select: a nondeterministic choice among the cases; the default branch can only be taken when no receive case
// is on a closed channel (a closed channel is always ready).
func (cm concurrencyModel) selectI(g *VCGen, x *ssa.Select) {
	g.chanHeaps()
	g.beforeNamed("select", x.Pos(), x)
	idx := g.freshConst("select!idx", "Int")
	lo := "0"
	if !x.Blocking {
		lo = "(- 1)"
	}
	g.assumeHere(fmt.Sprintf("(and (<= %s %s) (< %s %d))", lo, idx, idx, len(x.States)))
	results := []SpecVal{{idx, "Int", types.Typ[types.Int]}}
	recvOk := g.freshConst("select!recvOk", "Bool")
	results = append(results, SpecVal{recvOk, "Bool", types.Typ[types.Bool]})
	var notClosed []string
	for i, st := range x.States {
		ch := g.val(st.Chan)
		chosen := fmt.Sprintf("(= %s %d)", idx, i)
		// a nil channel is never ready
		g.assumeHere(fmt.Sprintf("(=> %s (not (= %s 0)))", chosen, ch.T))
		if st.Dir == types.RecvOnly {
			et := st.Chan.Type().Underlying().(*types.Chan).Elem()
			s := g.so.sortOf(et)
			v := g.freshConst("select!recv", s)
			sv := SpecVal{v, s, et}
			g.rangeFact(sv)
			g.assumeHere(g.allocFact(v, et, g.cur))
			results = append(results, sv)
			notClosed = append(notClosed, fmt.Sprintf("(or (= %s 0) (not (select %s %s)))", ch.T, g.heapTerm(g.cur, chanClosedHeap), ch.T))
			// a receive completes only if the channel is closed or something was ever sent on it
			g.assumeHere(fmt.Sprintf("(=> %s (or (select %s %s) (> (select %s %s) 0)))", chosen, g.heapTerm(g.cur, chanClosedHeap), ch.T, g.heapTerm(g.cur, chanSendsHeap), ch.T))
			rh := g.heapTerm(g.cur, chanRecvsHeap)
			g.setHeap(g.cur, chanRecvsHeap, fmt.Sprintf("(ite %s (store %s %s (+ (select %s %s) 1)) %s)", chosen, rh, ch.T, rh, ch.T, rh))
			lh := g.lastRecvHeap(s)
			lt := g.heapTerm(g.cur, lh)
			g.setHeap(g.cur, lh, fmt.Sprintf("(ite %s (store %s %s %s) %s)", chosen, lt, ch.T, v, lt))
			if inv, text, ok2 := g.chanInvFor(st.Chan, sv); ok2 {
				g.assumeHere(implies(chosen, inv))
				g.usedTrusted["chaninv assumed at receive: "+text] = true
			}
		} else {
			sent := g.val(st.Send)
			if inv, text, ok2 := g.chanInvFor(st.Chan, sent); ok2 {
				g.oblige("chaninv.send@"+st.Chan.Name(), "requires", implies(chosen, inv), "message invariant of the channel: "+text, x.Pos())
			}
			cm.sendEffect(g, ch.T, st.Chan.Name(), x.Pos(), chosen)
		}
	}
	if !x.Blocking && len(notClosed) > 0 {
		g.assumeHere(fmt.Sprintf("(=> (= %s (- 1)) %s)", idx, and(notClosed...)))
	}
	g.tuples[x] = results
	g.usedTrusted["select: nondeterministic choice among ready cases; default only if no receive case is on a closed channel"] = true
}

// ---------------------------------------------------------------- monitors

type MonitorDecl struct {
	Strict           bool // every access to a protected field is an obligation "the lock is held" (reads: shared or exclusive)
	Pkg, Type, Field string
	Protects         []Clause
	Invariant        []Clause
	File             string
	Line             int
}

// monitorFor finds the monitor declared for the mutex whose address is v (a FieldAddr of an object).
func (g *VCGen) monitorFor(v ssa.Value) (*MonitorDecl, SpecVal, bool) {
	fa, ok := v.(*ssa.FieldAddr)
	if !ok {
		return nil, SpecVal{}, false
	}
	pt := fa.X.Type().Underlying().(*types.Pointer)
	n, ok := pt.Elem().(*types.Named)
	if !ok || n.Obj().Pkg() == nil {
		return nil, SpecVal{}, false
	}
	st := n.Underlying().(*types.Struct)
	key := n.Obj().Pkg().Path() + "." + n.Obj().Name() + "." + st.Field(fa.Field).Name()
	m, ok := g.eng.contracts.Monitors[key]
	if !ok {
		return nil, SpecVal{}, false
	}
	owner, ok := g.vals[fa.X]
	if !ok {
		return nil, SpecVal{}, false
	}
	return m, SpecVal{owner.T, "Int", fa.X.Type()}, true
}

func (concurrencyModel) lockOp(g *VCGen, op string, c *ssa.CallCommon, pos token.Pos) {
	if len(c.Args) == 0 {
		return
	}
	m, owner, ok := g.monitorFor(c.Args[0])
	g.val(c.Args[0])
	if !ok {
		return
	}
	g.chanHeaps()
	env := &SpecEnv{g: g, vars: map[string]SpecVal{"self": owner}, cur: g.cur, old: g.cur, pkg: g.eng.typesPkg(m.Pkg)}
	if m.Strict {
		hr, hw := g.heldFlags(m)
		defer func() {
			switch op {
			case "Lock":
				g.setHeap(g.cur, hr, "true")
				g.setHeap(g.cur, hw, "true")
			case "RLock":
				g.setHeap(g.cur, hr, "true")
			case "Unlock":
				g.setHeap(g.cur, hr, "false")
				g.setHeap(g.cur, hw, "false")
			case "RUnlock":
				g.setHeap(g.cur, hr, "false")
			}
		}()
	}
	switch {
	case strings.HasSuffix(op, "Lock") && !strings.HasSuffix(op, "Unlock"):
		// acquire: other threads may have changed everything the monitor protects
		var prot []Clause
		for _, p := range m.Protects {
			keep := false
			if sel, ok := p.E.(ESel); ok && g.fc != nil && hasProp(g.fc.Props, "keeps:"+sel.Field) {
				keep = true // written only by this thread role: no other thread changes it (declared)
			}
			if !keep {
				prot = append(prot, p)
			}
		}
		locs := g.modLocs(env, prot)
		g.cur = g.havocFor(g.cur, locs, false)
		env.cur, env.old = g.cur, g.cur
		for _, inv := range m.Invariant {
			g.assumeHere(g.trClause(env, inv))
		}
		g.lockCount++
		if g.lockCount == 1 {
			g.lockState = g.cur.clone()
		} else {
			g.lockState = nil // atlock() is only defined for functions with a single lock acquisition
		}
		g.usedTrusted["sync.Mutex provides mutual exclusion; monitor "+m.Type+"."+m.Field+": protected state is only accessed under the lock (declared, see DESIGN 2.4 R2)"] = true
	default:
		for k, inv := range m.Invariant {
			g.oblige(fmt.Sprintf("monitor(%s).inv.%d@unlock:%s", m.Field, k, shortPos(g, pos)), "monitor", g.trGoal(env, inv), "monitor invariant re-established before "+op+": "+inv.Text, pos)
		}
	}
}

// heldFlags: ghost flags "this activation holds the monitor's lock (shared / exclusive)"
func (g *VCGen) heldFlags(m *MonitorDecl) (string, string) {
	return g.so.heap("IT!heldR!"+m.Type+"."+m.Field, "Bool"), g.so.heap("IT!heldW!"+m.Type+"."+m.Field, "Bool")
}

// initHeldFlags: no lock is held at entry (methods are called without the lock; a function that is only ever called with
// the lock held says so with prop "locked:<field>")
func (g *VCGen) initHeldFlags() {
	for _, m := range g.eng.contracts.Monitors {
		if !m.Strict {
			continue
		}
		hr, hw := g.heldFlags(m)
		v := "false"
		if g.fc != nil && hasProp(g.fc.Props, "locked:"+m.Field) {
			v = "true"
		}
		g.setHeap(g.cur, hr, v)
		g.setHeap(g.cur, hw, v)
	}
}

// checkProtected: an access through addr to a field protected by a strict monitor needs the lock
func (g *VCGen) checkProtected(addr ssa.Value, write bool, pos token.Pos) {
	fa, ok := addr.(*ssa.FieldAddr)
	if !ok {
		return
	}
	pt, ok := fa.X.Type().Underlying().(*types.Pointer)
	if !ok {
		return
	}
	n, ok := pt.Elem().(*types.Named)
	if !ok || n.Obj().Pkg() == nil {
		return
	}
	st, ok := n.Underlying().(*types.Struct)
	if !ok {
		return
	}
	fname := st.Field(fa.Field).Name()
	for _, m := range g.eng.contracts.Monitors {
		if !m.Strict || m.Type != n.Obj().Name() || m.Pkg != n.Obj().Pkg().Path() {
			continue
		}
		for _, p := range m.Protects {
			sel, ok := p.E.(ESel)
			if !ok || sel.Field != fname {
				continue
			}
			if id, ok := sel.X.(EIdent); !ok || id.Name != "self" {
				continue
			}
			hr, hw := g.heldFlags(m)
			flag, what := hr, "read"
			if write {
				flag, what = hw, "written"
			}
			g.oblige(fmt.Sprintf("monitor(%s).held@%s:%s", m.Field, shortPos(g, pos), fname), "monitor", g.heapTerm(g.cur, flag),
				fmt.Sprintf("field %s is %s only while %s is held", fname, what, m.Field), pos)
		}
	}
}

func shortPos(g *VCGen, pos token.Pos) string {
	if g.fn == nil {
		return ""
	}
	p := g.fn.Prog.Fset.Position(pos)
	return fmt.Sprintf("L%d", p.Line)
}
