package main

import (
	"fmt"
	"go/token"
	"go/types"
	"strings"

	"golang.org/x/tools/go/ssa"
)

// modLoc is one location set named by a modifies clause.
type modLoc struct {
	heap   string
	kind   string // field | obj | elems | heap | map | global | ghost
	ref    string
	sort   string // struct sort (field)
	field  int
	st     *types.Struct
	lo, hi string
}

// modLocs evaluates the modifies clauses in env (locations are evaluated in env.cur = pre-state).
func (g *VCGen) modLocs(env *SpecEnv, clauses []Clause) []modLoc {
	var out []modLoc
	for _, c := range clauses {
		func() {
			defer func() {
				if r := recover(); r != nil {
					if se, ok := r.(specErr); ok {
						panic(specErr(fmt.Sprintf("%s:%d: modifies: %s", c.File, c.Line, string(se))))
					}
					panic(r)
				}
			}()
			out = append(out, g.modLoc(env, c.E)...)
		}()
	}
	return out
}

func (g *VCGen) modLoc(env *SpecEnv, e Expr) []modLoc {
	switch x := e.(type) {
	case ESel:
		base := env.tr(x.X)
		if base.Go == nil {
			env.fail("modifies: untyped base")
		}
		// captured variables: read through the variable's cell
		for {
			pt, ok := base.Go.Underlying().(*types.Pointer)
			if !ok {
				break
			}
			if _, inner := pt.Elem().Underlying().(*types.Pointer); !inner {
				break
			}
			heap := g.so.heapFor(pt.Elem())
			base = SpecVal{fmt.Sprintf("(select %s %s)", env.heapT(env.cur, heap), base.T), "Int", pt.Elem()}
		}
		pt, ok := base.Go.Underlying().(*types.Pointer)
		if !ok {
			// nested struct field of a location: coarsen to the enclosing top-level field
			return g.modLoc(env, x.X)
		}
		st, ok := pt.Elem().Underlying().(*types.Struct)
		if !ok {
			env.fail("modifies: field of non-struct")
		}
		path := findField(st, x.Field)
		if path == nil {
			env.fail("modifies: no field %s", x.Field)
		}
		if g.eng.isOutOfLine(pt.Elem(), st, path[0]) {
			return []modLoc{{heap: g.so.heapFor(st.Field(path[0]).Type()), kind: "obj", ref: fmt.Sprintf("(fld %s %d)", base.T, path[0])}}
		}
		return []modLoc{{heap: g.so.heapFor(pt.Elem()), kind: "field", ref: base.T, sort: g.so.sortOf(pt.Elem()), field: path[0], st: st}}
	case ECall:
		switch x.Fn {
		case "all":
			base := env.tr(x.Args[0])
			pt, ok := base.Go.Underlying().(*types.Pointer)
			if !ok {
				env.fail("all() needs a pointer")
			}
			return []modLoc{{heap: g.so.heapFor(pt.Elem()), kind: "obj", ref: base.T}}
		case "elems", "elemscap":
			s := env.tr(x.Args[0])
			if s.Sort != "Slice" || s.Go == nil {
				env.fail("elems() needs a typed slice")
			}
			et := s.Go.Underlying().(*types.Slice).Elem()
			hi := fmt.Sprintf("(+ (s.off %s) (s.len %s))", s.T, s.T)
			if x.Fn == "elemscap" {
				hi = fmt.Sprintf("(+ (s.off %s) (s.cap %s))", s.T, s.T)
			}
			return []modLoc{{heap: g.so.sliceHeapFor(et), kind: "elems", ref: fmt.Sprintf("(s.base %s)", s.T), lo: fmt.Sprintf("(s.off %s)", s.T), hi: hi}}
		case "mapof":
			m := env.tr(x.Args[0])
			mt, ok := m.Go.Underlying().(*types.Map)
			if !ok {
				env.fail("mapof() needs a map")
			}
			h, _ := g.so.mapHeapFor(mt)
			return []modLoc{{heap: h, kind: "obj", ref: m.T}}
		case "heap":
			s, ok := x.Args[0].(EStr)
			if !ok {
				env.fail("heap() needs a string literal type name")
			}
			_, gt := env.resolveSort(s.V)
			if gt == nil {
				env.fail("heap(): unknown type")
			}
			if sl, ok := gt.Underlying().(*types.Slice); ok {
				return []modLoc{{heap: g.so.sliceHeapFor(sl.Elem()), kind: "heap"}}
			}
			if mt, ok := gt.Underlying().(*types.Map); ok {
				h, _ := g.so.mapHeapFor(mt)
				return []modLoc{{heap: h, kind: "heap"}}
			}
			return []modLoc{{heap: g.so.heapFor(gt), kind: "heap"}}
		case "global":
			id, ok := x.Args[0].(EIdent)
			if !ok {
				env.fail("global() needs an identifier")
			}
			v := env.ident(id.Name)
			_ = v
			return []modLoc{{heap: "G!" + smtSym(env.pkg.Name()+"."+id.Name), kind: "global"}}
		case "chanof":
			g.chanHeaps()
			ch := env.tr(x.Args[0])
			locs := []modLoc{{heap: chanSendsHeap, kind: "obj", ref: ch.T}, {heap: chanClosedHeap, kind: "obj", ref: ch.T}, {heap: chanCapHeap, kind: "obj", ref: ch.T}, {heap: chanRecvsHeap, kind: "obj", ref: ch.T}}
			if ch.Go != nil {
				if ct, ok := ch.Go.Underlying().(*types.Chan); ok {
					locs = append(locs, modLoc{heap: g.lastRecvHeap(g.so.sortOf(ct.Elem())), kind: "obj", ref: ch.T})
				}
			}
			return locs
		case "chanstate":
			g.chanHeaps()
			return []modLoc{{heap: chanSendsHeap, kind: "global"}, {heap: chanClosedHeap, kind: "global"}, {heap: chanRecvsHeap, kind: "global"}}
		case "ghost":
			id, ok := x.Args[0].(EIdent)
			if !ok {
				env.fail("ghost() needs an identifier")
			}
			return []modLoc{{heap: g.ghostHeap(id.Name), kind: "global"}}
		}
	case EIdent:
		if x.Name == "nothing" {
			return nil
		}
	case EIdx:
		// s[i] : single element
		s := env.tr(x.X)
		i := env.tr(x.I)
		if s.Sort == "Slice" && s.Go != nil {
			et := s.Go.Underlying().(*types.Slice).Elem()
			lo := fmt.Sprintf("(sidx (s.off %s) %s)", s.T, i.T)
			return []modLoc{{heap: g.so.sliceHeapFor(et), kind: "elems", ref: fmt.Sprintf("(s.base %s)", s.T), lo: lo, hi: "(+ 1 " + lo + ")"}}
		}
	}
	env.fail("unsupported modifies location %v", e)
	return nil
}

// frameFormula: everything allocated in pre and not in locs is unchanged between pre and post.
// heaps lists the heaps to constrain.
func (g *VCGen) frameFormula(pre, post *State, locs []modLoc, heaps []string) string {
	var parts []string
	for _, h := range heaps {
		if g.immutableHeap(h) || strings.HasPrefix(h, "IT!") {
			continue // IT!: ghost iteration / defer bookkeeping of this activation, not program state
		}
		a, b := g.heapTerm(pre, h), g.heapTerm(post, h)
		if a == b {
			continue
		}
		var mine []modLoc
		whole := false
		for _, l := range locs {
			if strings.HasPrefix(h, "HC!last!") && l.heap == chanRecvsHeap && l.kind == "global" {
				whole = true // chanstate() covers the last-received ghost of every channel
			}
			if l.heap == h {
				mine = append(mine, l)
				if l.kind == "heap" || l.kind == "global" {
					whole = true
				}
			}
		}
		if whole {
			continue
		}
		switch {
		case strings.HasPrefix(h, "G!") || strings.HasPrefix(h, "GH!"):
			parts = append(parts, fmt.Sprintf("(= %s %s)", b, a))
		case strings.HasPrefix(h, "HS!"):
			var exc []string
			for _, l := range mine {
				exc = append(exc, fmt.Sprintf("(not (and (= fb %s) (<= %s fi) (< fi %s)))", l.ref, l.lo, l.hi))
			}
			parts = append(parts, fmt.Sprintf("(forall ((fb Int) (fi Int)) (! (=> %s (= (select (select %s fb) fi) (select (select %s fb) fi))) :pattern ((select (select %s fb) fi))))",
				and(append([]string{fmt.Sprintf("(< fb %s)", pre.nextRef)}, exc...)...), b, a, b))
		default:
			var exc []string
			refs := map[string]bool{}
			for _, l := range mine {
				if !refs[l.ref] {
					refs[l.ref] = true
					exc = append(exc, fmt.Sprintf("(not (= fr %s))", l.ref))
				}
			}
			parts = append(parts, fmt.Sprintf("(forall ((fr Int)) (! (=> %s (= (select %s fr) (select %s fr))) :pattern ((select %s fr))))",
				and(append([]string{fmt.Sprintf("(alive fr %s)", pre.nextRef)}, exc...)...), b, a, b))
			// per-ref field preservation
			for r := range refs {
				var st *types.Struct
				var sn string
				objWhole := false
				for _, l := range mine {
					if l.ref == r {
						if l.kind == "obj" {
							objWhole = true
						} else {
							st, sn = l.st, l.sort
						}
					}
				}
				if objWhole || st == nil {
					continue
				}
				for fi := 0; fi < st.NumFields(); fi++ {
					var conds []string
					for _, l := range mine {
						if l.kind == "obj" && l.ref != r {
							conds = append(conds, fmt.Sprintf("(not (= %s %s))", r, l.ref))
						}
						if l.kind == "field" && l.field == fi {
							if l.ref == r {
								conds = append(conds, "false")
							} else {
								conds = append(conds, fmt.Sprintf("(not (= %s %s))", r, l.ref))
							}
						}
					}
					c := and(conds...)
					if c == "false" || strings.Contains(c, " false") {
						continue
					}
					sel := g.so.fieldSel(sn, st.Field(fi).Name(), fi)
					parts = append(parts, implies(and(c, fmt.Sprintf("(alive %s %s)", r, pre.nextRef)), fmt.Sprintf("(= (%s (select %s %s)) (%s (select %s %s)))", sel, b, r, sel, a, r)))
				}
			}
		}
	}
	return and(parts...)
}

// frameSoFar: the function's own modifies clause, relating entry state to st.
func (g *VCGen) frameSoFar(st *State) string {
	if g.fc == nil {
		return "true"
	}
	if hasProp(g.fc.Props, "noframe") || g.fc.HasPreserves {
		return "true"
	}
	env := g.ownEnv(g.entry)
	env.old = g.entry
	locs := g.modLocs(env, g.fc.Modifies)
	var heaps []string
	for h := range st.heaps {
		heaps = append(heaps, h)
	}
	sortStrings(heaps)
	f := g.frameFormula(g.entry, st, locs, heaps)
	return and(f, fmt.Sprintf("(>= %s %s)", st.nextRef, g.entry.nextRef))
}

func sortStrings(xs []string) {
	for i := 1; i < len(xs); i++ {
		for j := i; j > 0 && xs[j] < xs[j-1]; j-- {
			xs[j], xs[j-1] = xs[j-1], xs[j]
		}
	}
}

// havocFor creates the post-call state for a callee with the given modified locations.
func (g *VCGen) havocFor(pre *State, locs []modLoc, allocates bool) *State {
	post := pre.clone()
	seen := map[string]bool{}
	var heaps []string
	for _, l := range locs {
		if !seen[l.heap] {
			seen[l.heap] = true
			heaps = append(heaps, l.heap)
			name := g.freshName(l.heap + "@call")
			g.declare(name, g.so.heaps[l.heap])
			post.heaps[l.heap] = name
		}
	}
	if allocates {
		nr := g.freshConst("nextRef@call", "Int")
		g.assume(fmt.Sprintf("(>= %s %s)", nr, pre.nextRef))
		post.nextRef = nr
	}
	if f := g.frameFormula(pre, post, locs, heaps); f != "true" {
		g.assumeHere(f)
	}
	return post
}

// ---------------------------------------------------------------- ghost state

func (g *VCGen) ghostHeap(name string) string {
	gd := g.eng.ghosts[name]
	if gd == nil {
		panic(specErr("unknown ghost variable " + name))
	}
	env := &SpecEnv{g: g, vars: map[string]SpecVal{}, pkg: g.eng.typesPkg(gd.pkg)}
	s, _ := env.resolveSort(gd.sort)
	return g.so.heap("GH!"+name, s)
}

func (g *VCGen) ghostVal(st *State, name string) (SpecVal, bool) {
	gd := g.eng.ghosts[name]
	if gd == nil || st == nil {
		return SpecVal{}, false
	}
	h := g.ghostHeap(name)
	env := &SpecEnv{g: g, vars: map[string]SpecVal{}, pkg: g.eng.typesPkg(gd.pkg)}
	_, gt := env.resolveSort(gd.sort)
	return SpecVal{g.heapTerm(st, h), g.so.heaps[h], gt}, true
}

// havocAllBut: open-world callee. Every heap gets a fresh version (including heaps not mentioned so far: the
// state's epoch is bumped); the listed locations keep their contents.
func (g *VCGen) havocAllBut(pre *State, keep []modLoc) *State {
	post := &State{heaps: map[string]string{}, epoch: g.eng.nextEpoch()}
	for h, t := range pre.heaps {
		if strings.HasPrefix(h, "IT!") {
			post.heaps[h] = t // the seen-set of a range loop is ghost state of this function: no callee can touch it
		}
	}
	for h := range g.so.heaps {
		if strings.HasPrefix(h, "IT!") {
			if _, ok := post.heaps[h]; !ok {
				post.heaps[h] = g.heapTerm(pre, h)
			}
		}
	}
	nr := g.freshConst("nextRef@call", "Int")
	g.assume(fmt.Sprintf("(>= %s %s)", nr, pre.nextRef))
	post.nextRef = nr
	var facts []string
	keep = append(append([]modLoc{}, keep...), g.callbacksKeepLocs(pre)...)
	for _, l := range keep {
		a, b := g.heapTerm(pre, l.heap), g.heapTerm(post, l.heap)
		switch l.kind {
		case "heap", "global":
			facts = append(facts, fmt.Sprintf("(= %s %s)", b, a))
		case "obj":
			facts = append(facts, fmt.Sprintf("(= (select %s %s) (select %s %s))", b, l.ref, a, l.ref))
		case "field":
			sel := g.so.fieldSel(l.sort, l.st.Field(l.field).Name(), l.field)
			facts = append(facts, fmt.Sprintf("(= (%s (select %s %s)) (%s (select %s %s)))", sel, b, l.ref, sel, a, l.ref))
		case "elems":
			facts = append(facts, fmt.Sprintf("(forall ((fi Int)) (! (=> (and (<= %s fi) (< fi %s)) (= (select (select %s %s) fi) (select (select %s %s) fi))) :pattern ((select (select %s %s) fi))))", l.lo, l.hi, b, l.ref, a, l.ref, b, l.ref))
		}
	}
	// cells of local variables whose address never leaves this function cannot be touched by any callee
	for v, sv := range g.vals {
		al, ok := v.(*ssa.Alloc)
		if !ok || !privateAlloc(al) {
			continue
		}
		et := al.Type().Underlying().(*types.Pointer).Elem()
		if _, isArr := et.Underlying().(*types.Array); isArr || g.isImmutable(et) {
			continue
		}
		heap := g.so.heapFor(et)
		facts = append(facts, fmt.Sprintf("(= (select %s %s) (select %s %s))", g.heapTerm(post, heap), sv.T, g.heapTerm(pre, heap), sv.T))
	}
	// library iterators/builders created here and only used as receivers of library methods are private too
	for v, sv := range g.vals {
		call, ok := v.(*ssa.Call)
		if !ok || !privateLibObj(call) {
			continue
		}
		pt, ok := call.Type().(*types.Pointer)
		if !ok {
			continue
		}
		n, ok := pt.Elem().(*types.Named)
		if !ok {
			continue
		}
		ta := n.TypeArgs()
		var heap string
		switch n.Obj().Name() {
		case "MapIterator":
			heap, _ = g.mapIterHeap(g.imap(ta.At(0), ta.At(1)))
		case "ListIterator":
			heap, _ = g.listIterHeap(g.ilist(ta.At(0)))
		case "MapBuilder":
			heap = g.mapBuilderHeap(g.imap(ta.At(0), ta.At(1)))
		case "ListBuilder":
			heap = g.listBuilderHeap(g.ilist(ta.At(0)))
		default:
			continue
		}
		facts = append(facts, fmt.Sprintf("(= (select %s %s) (select %s %s))", g.heapTerm(post, heap), sv.T, g.heapTerm(pre, heap), sv.T))
	}
	// captured variables of a closure: the callee does not receive them (assumption: the enclosing function
	// keeps them local, which is checked there by privateAlloc when it calls out)
	if g.fn != nil {
		for _, fv := range g.fn.FreeVars {
			sv, ok := g.vals[fv]
			if !ok {
				continue
			}
			pt, ok := fv.Type().Underlying().(*types.Pointer)
			if !ok {
				continue
			}
			if _, isArr := pt.Elem().Underlying().(*types.Array); isArr || g.isImmutable(pt.Elem()) {
				continue
			}
			heap := g.so.heapFor(pt.Elem())
			facts = append(facts, fmt.Sprintf("(= (select %s %s) (select %s %s))", g.heapTerm(post, heap), sv.T, g.heapTerm(pre, heap), sv.T))
		}
	}
	facts = append(facts, g.snapshotSliceFacts(pre, post)...)
	if len(facts) > 0 {
		g.assumeHere(and(facts...))
	}
	return post
}

// libObjHeap: the model heap holding the state of a private library iterator/builder created by call
func (g *VCGen) libObjHeap(call *ssa.Call) (string, bool) {
	pt, ok := call.Type().(*types.Pointer)
	if !ok {
		return "", false
	}
	n, ok := pt.Elem().(*types.Named)
	if !ok {
		return "", false
	}
	ta := n.TypeArgs()
	switch n.Obj().Name() {
	case "MapIterator":
		h, _ := g.mapIterHeap(g.imap(ta.At(0), ta.At(1)))
		return h, true
	case "ListIterator":
		h, _ := g.listIterHeap(g.ilist(ta.At(0)))
		return h, true
	case "MapBuilder":
		return g.mapBuilderHeap(g.imap(ta.At(0), ta.At(1))), true
	case "ListBuilder":
		return g.listBuilderHeap(g.ilist(ta.At(0))), true
	}
	return "", false
}

// callbacksKeepLocs: "callbackskeep L": the function's own private state, which the open-world calls it makes are assumed
// not to touch (reported as an assumption)
func (g *VCGen) callbacksKeepLocs(pre *State) []modLoc {
	if g.fc == nil || len(g.fc.CallbacksKeep) == 0 {
		return nil
	}
	env := g.ownEnv(pre)
	g.usedTrusted["callbackskeep: calls into sub-resources do not touch this object's own state (declared in its contract)"] = true
	return g.modLocs(env, g.fc.CallbacksKeep)
}

// snapshotSliceFacts: a slice returned by a callee whose (trusted) contract carries prop "snapshot", and which this
// function only measures, indexes and ranges over, keeps its elements across open-world calls: the contract's stated
// justification is that nobody else can reach the backing array while the caller uses it.
func (g *VCGen) snapshotSliceFacts(pre, post *State) []string {
	var facts []string
	for v, sv := range g.vals {
		call, ok := v.(*ssa.Call)
		if !ok {
			continue
		}
		st, ok := call.Type().Underlying().(*types.Slice)
		if !ok {
			continue
		}
		callee := call.Common().StaticCallee()
		if callee == nil {
			continue
		}
		fc := g.eng.contractFor(callee)
		if fc == nil || !hasProp(fc.Props, "snapshot") {
			continue
		}
		okUse := true
		for _, r := range *call.Referrers() {
			switch u := r.(type) {
			case *ssa.IndexAddr, *ssa.DebugRef:
			case *ssa.Call:
				if b, isB := u.Common().Value.(*ssa.Builtin); !isB || (b.Name() != "len" && b.Name() != "cap") {
					okUse = false
				}
			default:
				okUse = false
			}
		}
		if !okUse {
			continue
		}
		heap := g.so.sliceHeapFor(st.Elem())
		a, b := g.heapTerm(pre, heap), g.heapTerm(post, heap)
		if a == b {
			continue
		}
		facts = append(facts, fmt.Sprintf("(forall ((fi Int)) (! (= (select (select %s (s.base %s)) fi) (select (select %s (s.base %s)) fi)) :pattern ((select (select %s (s.base %s)) fi))))", b, sv.T, a, sv.T, b, sv.T))
		g.usedTrusted["snapshot slice: the result of "+callee.String()+" is not modified by anyone while the caller uses it (declared by its contract)"] = true
	}
	return facts
}

// privateAlloc: the cell is only ever loaded, stored to, or field-selected (its address does not escape)
func privateAlloc(al *ssa.Alloc) bool {
	var ok func(v ssa.Value) bool
	ok = func(v ssa.Value) bool {
		refs := v.Referrers()
		if refs == nil {
			return false
		}
		for _, r := range *refs {
			switch x := r.(type) {
			case *ssa.DebugRef:
			case *ssa.UnOp:
				if x.Op != token.MUL {
					return false
				}
			case *ssa.Store:
				if x.Val == v {
					return false
				}
			case *ssa.MakeClosure:
				// captured by a closure that is only deferred or called in place: still local to this function
				crefs := x.Referrers()
				if crefs == nil {
					return false
				}
				for _, cr := range *crefs {
					switch y := cr.(type) {
					case *ssa.Defer:
						if y.Call.Value != ssa.Value(x) {
							return false
						}
					case *ssa.Call:
						if y.Call.Value != ssa.Value(x) {
							return false
						}
					case *ssa.DebugRef:
					default:
						return false
					}
				}
			case *ssa.FieldAddr:
				if _, isStruct := x.Type().Underlying().(*types.Pointer).Elem().Underlying().(*types.Struct); isStruct {
					// the address of a struct-typed field may be used as a method receiver: follow it
					if !ok(x) {
						return false
					}
				} else if !ok(x) {
					return false
				}
			default:
				return false
			}
		}
		return true
	}
	return ok(al)
}

// privateLibObj: an iterator/builder of the immutable library that is only ever used as a method receiver
func privateLibObj(call *ssa.Call) bool {
	pt, ok := call.Type().(*types.Pointer)
	if !ok {
		return false
	}
	n, ok := pt.Elem().(*types.Named)
	if !ok || n.Obj().Pkg() == nil || n.Obj().Pkg().Path() != immPkg {
		return false
	}
	refs := call.Referrers()
	if refs == nil {
		return false
	}
	for _, r := range *refs {
		switch x := r.(type) {
		case *ssa.DebugRef:
		case *ssa.Call:
			if len(x.Call.Args) == 0 || x.Call.Args[0] != ssa.Value(call) {
				return false
			}
			for _, a := range x.Call.Args[1:] {
				if a == ssa.Value(call) {
					return false
				}
			}
			callee := x.Call.StaticCallee()
			if callee == nil {
				return false
			}
			if _, _, isImm := immRecv(callee); !isImm {
				return false
			}
		default:
			return false
		}
	}
	return true
}
