package main

import (
	"crypto/sha1"
	"encoding/hex"
	"encoding/json"
	"os"
	"os/exec"
	"regexp"
	"sort"
	"strconv"
	"strings"
	"sync"
)

// Proof hints.
//
// A hint for an obligation is the set of hypotheses (assert lines of its query) that a solver actually used the last
// time it proved the obligation (an unsat core), recorded as hashes of the assertion text with the fresh-name counters
// removed. On later runs the obligation is first tried with only those hypotheses of the *freshly generated* query
// whose hash is in the hint. Dropping hypotheses can only make a query harder to refute, so a proof found that way is a
// proof of the full obligation whatever the hint file contains (stale, wrong or hostile hints cost time, never
// soundness). When the hinted query is not refuted the full query is solved as before.
//
// The point is robustness, not only speed: the large VCs carry a few hundred quantified hypotheses of which a proof
// needs a few dozen, and the irrelevant ones make solver run times erratic.

type hintStore struct {
	mu    sync.Mutex
	path  string
	hints map[string][]string
	dirty bool
}

var counterRE = regexp.MustCompile(`![0-9]+`)

// SSA register names (t12@34) are renumbered by any edit of the function: they are normalised away too, so that a hint
// survives harmless edits. Collisions only make a hint select more hypotheses.
var registerRE = regexp.MustCompile(`(^|[^A-Za-z0-9_.])t[0-9]+`)
var blockNameRE = regexp.MustCompile(`([!@])b[0-9]+`)
var registerVerRE = regexp.MustCompile(`(^|[^A-Za-z0-9_.])t@[0-9]+`)
var registerNameRE = regexp.MustCompile(`\bt[0-9]+\b`)

// normKey: obligation name with register numbers and source columns removed
var posRE = regexp.MustCompile(`:[0-9]+:[0-9]+`)
var blockRE = regexp.MustCompile(`@b[0-9]+`)

func normKey(name string) string {
	s := registerNameRE.ReplaceAllString(name, "t")
	s = posRE.ReplaceAllString(s, "") // source line:column of a cut point
	s = blockRE.ReplaceAllString(s, "@b") // SSA block numbers
	return s
}

func hashAssert(line string) string {
	s := counterRE.ReplaceAllString(line, "!")
	s = registerRE.ReplaceAllString(s, "${1}t")
	s = registerVerRE.ReplaceAllString(s, "${1}t@")
	s = blockNameRE.ReplaceAllString(s, "${1}b")
	s = counterRE.ReplaceAllString(s, "!")
	h := sha1.Sum([]byte(s))
	return hex.EncodeToString(h[:6])
}

func loadHints(path string) *hintStore {
	hs := &hintStore{path: path, hints: map[string][]string{}}
	if b, err := os.ReadFile(path); err == nil {
		_ = json.Unmarshal(b, &hs.hints)
	}
	return hs
}

func (hs *hintStore) get(name string) map[string]bool {
	if hs == nil {
		return nil
	}
	hs.mu.Lock()
	defer hs.mu.Unlock()
	l, ok := hs.hints[name]
	if !ok {
		// the same obligation under renumbered registers
		nk := normKey(name)
		for k, v := range hs.hints {
			if normKey(k) == nk {
				l, ok = v, true
				break
			}
		}
	}
	if !ok {
		return nil
	}
	m := map[string]bool{}
	for _, h := range l {
		m[h] = true
	}
	return m
}

func hashSet(l []string) map[string]bool {
	m := map[string]bool{}
	for _, h := range l {
		m[h] = true
	}
	return m
}

// lookup: the hint of an obligation (nil if none) and whether the file knows the obligation at all ("-" entries
// record that no usable hint exists)
func (hs *hintStore) lookup(name string) (map[string]bool, bool) {
	if hs == nil {
		return nil, false
	}
	hs.mu.Lock()
	l, ok := hs.hints[name]
	if !ok {
		nk := normKey(name)
		for k, v := range hs.hints {
			if normKey(k) == nk {
				l, ok = v, true
				break
			}
		}
	}
	hs.mu.Unlock()
	if !ok {
		return nil, false
	}
	if len(l) == 1 && l[0] == "-" {
		return nil, true
	}
	return hashSet(l), true
}

// getUnion: every hypothesis any obligation of the function ever needed (fallback when the obligation itself has no
// usable hint, e.g. after an edit that added or reordered obligations)
func (hs *hintStore) getUnion(fn string) map[string]bool {
	if hs == nil {
		return nil
	}
	hs.mu.Lock()
	defer hs.mu.Unlock()
	m := map[string]bool{}
	prefix := fn + "#"
	for k, v := range hs.hints {
		if strings.HasPrefix(k, prefix) {
			for _, h := range v {
				m[h] = true
			}
		}
	}
	if len(m) == 0 {
		return nil
	}
	return m
}

func (hs *hintStore) put(name string, hashes []string) {
	sort.Strings(hashes)
	hs.mu.Lock()
	defer hs.mu.Unlock()
	hs.hints[name] = hashes
	hs.dirty = true
}

func (hs *hintStore) save() error {
	hs.mu.Lock()
	defer hs.mu.Unlock()
	if !hs.dirty {
		return nil
	}
	b, err := json.MarshalIndent(hs.hints, "", " ")
	if err != nil {
		return err
	}
	return os.WriteFile(hs.path, append(b, '\n'), 0644)
}

func isAssertLine(l string) bool {
	return strings.HasPrefix(l, "(assert ") && strings.HasSuffix(l, ")")
}

// hintedText keeps the declarations, and of the single-line hypotheses only those named by the hint. The last two
// assertions (path guard and negated goal) are always kept.
func hintedText(text string, hint map[string]bool) (string, int, int) {
	lines := strings.Split(text, "\n")
	var idx []int
	for i, l := range lines {
		if isAssertLine(l) {
			idx = append(idx, i)
		}
	}
	keepAlways := map[int]bool{}
	for k := len(idx) - 1; k >= 0 && k >= len(idx)-2; k-- {
		keepAlways[idx[k]] = true
	}
	var out []string
	kept := 0
	for i, l := range lines {
		if isAssertLine(l) && !keepAlways[i] {
			if !hint[hashAssert(l)] {
				continue
			}
			kept++
		}
		out = append(out, l)
	}
	return strings.Join(out, "\n"), kept, len(idx)
}

var coreNameRE = regexp.MustCompile(`h\$a[0-9]+`)

// extractCore asks z3 for an unsat core of the query and returns the hashes of the hypotheses in it.
func extractCore(text string, timeoutS int) ([]string, bool) {
	lines := strings.Split(text, "\n")
	out := []string{"(set-option :produce-unsat-cores true)"}
	names := map[string]string{}
	for i, l := range lines {
		switch {
		case isAssertLine(l):
			nm := "h$a" + itoa(i)
			names[nm] = l
			out = append(out, "(assert (! "+l[8:len(l)-1]+" :named "+nm+"))")
		case strings.HasPrefix(l, "(check-sat"):
			out = append(out, l, "(get-unsat-core)")
		case strings.HasPrefix(l, "(get-model"), strings.HasPrefix(l, "(get-info"), strings.HasPrefix(l, "(set-option :produce-models"):
		default:
			out = append(out, l)
		}
	}
	f, err := os.CreateTemp("", "core*.smt2")
	if err != nil {
		return nil, false
	}
	defer os.Remove(f.Name())
	f.WriteString(strings.Join(out, "\n"))
	f.Close()
	for _, args := range [][]string{
		{"z3-new", "-smt2", "-T:" + itoa(timeoutS), "smt.array.extensional=false", f.Name()},
		{"z3", "-smt2", "-T:" + itoa(timeoutS), f.Name()},
	} {
		b, _ := exec.Command(args[0], args[1:]...).Output()
		s := string(b)
		if !strings.HasPrefix(s, "unsat") {
			continue
		}
		var hashes []string
		seen := map[string]bool{}
		for _, nm := range coreNameRE.FindAllString(s, -1) {
			if l, ok := names[nm]; ok {
				h := hashAssert(l)
				if !seen[h] {
					seen[h] = true
					hashes = append(hashes, h)
				}
			}
		}
		return hashes, true
	}
	return nil, false
}

func itoa(i int) string { return strconv.Itoa(i) }
