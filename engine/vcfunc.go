package main

import (
	"sort"
	"os"
	"fmt"
	"go/token"
	"go/types"
	"strings"

	"golang.org/x/tools/go/ssa"
)

func newVCGen(eng *Engine, fn *ssa.Function, fc *FuncContract) *VCGen {
	g := &VCGen{eng: eng, fn: fn, fc: fc, so: newSorts(),
		vals: map[ssa.Value]SpecVal{}, addrs: map[ssa.Value]*Addr{}, tuples: map[ssa.Value][]SpecVal{},
		reach: map[*ssa.BasicBlock]string{}, exitSt: map[*ssa.BasicBlock]*State{}, exitPC: map[*ssa.BasicBlock]string{},
		edgeCond: map[[2]int]string{}, debugRef: map[string][]*ssa.DebugRef{}, freshImm: map[ssa.Value]bool{},
		iters: map[ssa.Value]*iterInfo{}, closures: map[ssa.Value]*ssa.MakeClosure{},
		usedTrusted: map[string]bool{}, usedCallees: map[string]bool{}, paramVals: map[string]SpecVal{}, ghost: map[string]string{}}
	g.so.special = eng.specialSort
	return g
}

func (g *VCGen) pkgOf(fn *ssa.Function) *types.Package {
	if fn.Pkg != nil {
		return fn.Pkg.Pkg
	}
	if fn.Parent() != nil {
		return g.pkgOf(fn.Parent())
	}
	if o := fn.Object(); o != nil {
		return o.Pkg()
	}
	if fn.Origin() != nil {
		return g.pkgOf(fn.Origin())
	}
	return nil
}

// specEnvFor builds the environment for translating the function's own contract.
func (g *VCGen) ownEnv(cur *State) *SpecEnv {
	env := &SpecEnv{g: g, vars: map[string]SpecVal{}, cur: cur, old: g.entry, pkg: g.pkgOf(g.fn)}
	for k, v := range g.paramVals {
		env.vars[k] = v
	}
	return env
}

func (g *VCGen) trClause(env *SpecEnv, c Clause) (t string) {
	defer func() {
		if r := recover(); r != nil {
			if se, ok := r.(specErr); ok {
				panic(specErr(fmt.Sprintf("%s:%d: %s", c.File, c.Line, string(se))))
			}
			panic(r)
		}
	}()
	return env.boolT(c.E)
}

// lemmaInstance: "name(args)" -> requires[args] => ensures[args]
func (g *VCGen) lemmaInstance(env *SpecEnv, c Clause) string {
	defer func() {
		if r := recover(); r != nil {
			if se, ok := r.(specErr); ok {
				panic(specErr(fmt.Sprintf("%s:%d: %s", c.File, c.Line, string(se))))
			}
			panic(r)
		}
	}()
	call, ok := c.E.(ECall)
	if !ok {
		panic(specErr("use: expected lemma(args)"))
	}
	l := g.eng.lemmaByName(call.Fn)
	if l == nil {
		panic(specErr("use: unknown lemma " + call.Fn))
	}
	if len(call.Args) != len(l.Params) {
		panic(specErr("use: wrong number of arguments for " + call.Fn))
	}
	var args []SpecVal
	for _, a := range call.Args {
		args = append(args, env.tr(a))
	}
	if l.Axiom {
		g.usedTrusted["axiom "+l.Name] = true
	} else {
		g.usedCallees["lemma "+l.Name] = true
	}
	return g.eng.lemmaFormula(g, l, args)
}

// trGoal: like trClause but for formulas to be proved (skolemised, see SpecEnv.goalT).
func (g *VCGen) trGoal(env *SpecEnv, c Clause) (t string) {
	defer func() {
		if r := recover(); r != nil {
			if se, ok := r.(specErr); ok {
				panic(specErr(fmt.Sprintf("%s:%d: %s", c.File, c.Line, string(se))))
			}
			panic(r)
		}
	}()
	return env.goalT(c.E)
}

func recvName(fn *ssa.Function, i int, p *ssa.Parameter) string {
	n := p.Name()
	if n == "" || n == "_" {
		if i == 0 && fn.Signature.Recv() != nil {
			return "self"
		}
		return fmt.Sprintf("arg%d", i)
	}
	return n
}

func (g *VCGen) run() {
	fn := g.fn
	if len(fn.Blocks) == 0 {
		panic(unsupported("function has no body: " + fn.String()))
	}
	g.analyzeLoops()
	g.entry = &State{heaps: map[string]string{}, nextRef: g.declare("nextRef@0", "Int")}
	g.assume("(> nextRef@0 0)")
	g.cur = g.entry.clone()
	g.pathCond = "true"
	for i, p := range fn.Params {
		sv := g.havocVal(p)
		g.assume(g.allocFact(sv.T, p.Type(), g.entry))
		g.paramVals[recvName(fn, i, p)] = sv
		// heap well-formedness at entry, one level deep: what the fields of a struct passed by pointer refer to
		// was allocated before the call
		if pt, isPtr := p.Type().Underlying().(*types.Pointer); isPtr {
			if _, isStruct := pt.Elem().Underlying().(*types.Struct); isStruct && g.so.sortOf(p.Type()) == "Int" {
				func() {
					defer func() { recover() }()
					heap := g.so.heapFor(pt.Elem())
					cell := fmt.Sprintf("(select %s %s)", g.heapTerm(g.entry, heap), sv.T)
					if f := g.allocFact(cell, pt.Elem(), g.entry); f != "true" {
						g.assume(fmt.Sprintf("(=> (not (= %s 0)) %s)", sv.T, f))
					}
				}()
			}
		}
		if i == 0 && fn.Signature.Recv() != nil {
			if _, isPtr := p.Type().Underlying().(*types.Pointer); isPtr && !(g.fc != nil && hasProp(g.fc.Props, "nilrecv")) {
				g.assume(fmt.Sprintf("(not (= %s 0))", sv.T))
			}
		}
	}
	for _, fv := range fn.FreeVars {
		sv := g.havocVal(fv)
		g.assume(g.allocFact(sv.T, fv.Type(), g.entry))
		if _, isPtr := fv.Type().Underlying().(*types.Pointer); isPtr {
			g.assume(fmt.Sprintf("(not (= %s 0))", sv.T)) // a captured variable is a valid cell
		}
		g.paramVals[fv.Name()] = sv
	}
	g.globalFacts(g.entry)
	env := g.ownEnv(g.entry)
	if g.fc != nil {
		for _, c := range g.fc.Requires {
			g.assume(g.trClause(env, c))
		}
		if g.fc.PanicsIff != nil {
			g.panicAllowed = g.trClause(env, *g.fc.PanicsIff)
		}
		for _, u := range g.fc.Uses {
			g.assume(g.lemmaInstance(env, u))
		}
	}
	g.initDeferFlags()
	g.initHeldFlags()
	// ghost updates declared by the contract happen at entry
	if g.fc != nil {
		for _, gs := range g.fc.GhostSets {
			env := g.ownEnv(g.entry)
			v := env.tr(gs.C.E)
			h := g.ghostHeap(gs.Name)
			g.setHeap(g.cur, h, v.T)
		}
	}
	// vacuity guard: precondition satisfiable
	g.obls = append(g.obls, Obligation{Name: "vacuity.requires", Kind: "cover", Guard: "true", Goal: "false", NAssert: len(g.asserts),
		Pos: fn.Prog.Fset.Position(fn.Pos()), Text: "precondition is satisfiable (must be sat)", Func: fn.String()})
	for _, b := range g.topoOrder() {
		g.block(b)
	}
	if g.retCount == 0 && !(g.fc != nil && g.fc.PanicsIff != nil) {
		g.warnings = append(g.warnings, "function has no reachable return")
	}
	// a cut-point clause that attaches to no site (no such call left, or its variables are nowhere in scope) checks
	// nothing: the code no longer has the shape the contract speaks about
	if g.fc != nil {
		for k, cl := range g.fc.AtReturn {
			if !g.beforeApplied[fmt.Sprintf("atreturn.%d", k)] {
				g.obls = append(g.obls, Obligation{Name: fmt.Sprintf("atreturn.%d.unattached", k), Kind: "ensures", Guard: "true", Goal: "false", NAssert: 0,
					Pos: fn.Prog.Fset.Position(fn.Pos()), Text: "the clause 'atreturn " + cl.Text + "' applies at no return of the function", Func: fn.String()})
			}
		}
		var names []string
		for name := range g.fc.Before {
			names = append(names, name)
		}
		sort.Strings(names)
		for _, name := range names {
			for k, cl := range g.fc.Before[name] {
				if !g.beforeApplied[fmt.Sprintf("%s.%d", name, k)] {
					g.obls = append(g.obls, Obligation{Name: fmt.Sprintf("before.%s.%d.unattached", name, k), Kind: "requires", Guard: "true", Goal: "false", NAssert: 0,
						Pos: fn.Prog.Fset.Position(fn.Pos()), Text: "the clause 'before " + name + ": " + cl.Text + "' attaches to no site of the function", Func: fn.String()})
				}
			}
		}
	}
}

func hasProp(ps []string, p string) bool {
	for _, x := range ps {
		if x == p {
			return true
		}
	}
	return false
}

func (g *VCGen) edge(p, b *ssa.BasicBlock) string {
	pc, ok := g.exitPC[p]
	if !ok {
		return "false"
	}
	c := "true"
	if ec, ok := g.edgeCond[[2]int{p.Index, b.Index}]; ok {
		c = ec
	}
	// a block whose two successors are the same block
	return and(pc, c)
}

func (g *VCGen) mergeStates(b *ssa.BasicBlock, preds []*ssa.BasicBlock) *State {
	if len(preds) == 1 {
		return g.exitSt[preds[0]].clone()
	}
	st := &State{heaps: map[string]string{}}
	names := map[string]bool{}
	diffEpoch := false
	for _, p := range preds {
		if g.exitSt[p].epoch > st.epoch {
			st.epoch = g.exitSt[p].epoch
		}
		if g.exitSt[p].epoch != g.exitSt[preds[0]].epoch {
			diffEpoch = true
		}
	}
	if diffEpoch {
		// states from different havoc epochs: every known heap must be merged explicitly
		st.epoch = g.eng.nextEpoch()
		for h := range g.so.heaps {
			names[h] = true
		}
	}
	for _, p := range preds {
		for h := range g.exitSt[p].heaps {
			names[h] = true
		}
	}
	for h := range names {
		same := true
		first := g.heapTerm(g.exitSt[preds[0]], h)
		for _, p := range preds[1:] {
			if g.heapTerm(g.exitSt[p], h) != first {
				same = false
			}
		}
		if same {
			st.heaps[h] = first
			continue
		}
		name := g.freshName(h + "@b" + fmt.Sprint(b.Index))
		g.declare(name, g.so.heaps[h])
		for _, p := range preds {
			g.assume(implies(g.edge(p, b), fmt.Sprintf("(= %s %s)", name, g.heapTerm(g.exitSt[p], h))))
		}
		st.heaps[h] = name
	}
	same := true
	for _, p := range preds[1:] {
		if g.exitSt[p].nextRef != g.exitSt[preds[0]].nextRef {
			same = false
		}
	}
	if same {
		st.nextRef = g.exitSt[preds[0]].nextRef
	} else {
		name := g.freshConst("nextRef@b"+fmt.Sprint(b.Index), "Int")
		for _, p := range preds {
			g.assume(implies(g.edge(p, b), fmt.Sprintf("(= %s %s)", name, g.exitSt[p].nextRef)))
		}
		st.nextRef = name
	}
	return st
}

func (g *VCGen) block(b *ssa.BasicBlock) {
	g.curBlock = b
	if b.Index == 0 {
		g.reach[b] = "true"
		g.pathCond = "true"
	} else {
		var preds []*ssa.BasicBlock
		var edges []string
		for _, p := range b.Preds {
			if g.backEdge[[2]int{p.Index, b.Index}] {
				continue
			}
			if _, ok := g.exitPC[p]; !ok {
				continue
			}
			dup := false
			for _, q := range preds {
				if q == p {
					dup = true
				}
			}
			if dup {
				continue
			}
			preds = append(preds, p)
			edges = append(edges, g.edge(p, b))
		}
		if len(preds) == 0 {
			if b == g.fn.Recover {
				return // recover blocks are not modelled
			}
			return
		}
		r := g.freshConst(fmt.Sprintf("R!b%d", b.Index), "Bool")
		g.assume(fmt.Sprintf("(= %s %s)", r, or(edges...)))
		g.reach[b] = r
		li := g.loops[b]
		if li != nil {
			g.loopHeader(b, li, preds)
		} else {
			g.cur = g.mergeStates(b, preds)
			g.pathCond = r
			for _, in := range b.Instrs {
				phi, ok := in.(*ssa.Phi)
				if !ok {
					break
				}
				g.phi(b, phi, preds)
			}
		}
	}
	for _, in := range b.Instrs {
		if _, ok := in.(*ssa.Phi); ok {
			continue
		}
		g.instr(in)
	}
	g.exitSt[b] = g.cur
	g.exitPC[b] = g.pathCond
	// back edges out of this block
	for _, s := range b.Succs {
		if g.backEdge[[2]int{b.Index, s.Index}] {
			g.loopBackEdge(b, s)
		}
	}
}

func (g *VCGen) phi(b *ssa.BasicBlock, phi *ssa.Phi, preds []*ssa.BasicBlock) {
	// address-valued phis are not supported
	sortName := g.so.sortOf(phi.Type())
	name := g.valName(phi)
	g.declare(name, sortName)
	sv := SpecVal{name, sortName, phi.Type()}
	for i, p := range b.Preds {
		if g.backEdge[[2]int{p.Index, b.Index}] {
			continue
		}
		if _, ok := g.exitPC[p]; !ok {
			continue
		}
		in := g.val(phi.Edges[i])
		g.assume(implies(g.edge(p, b), fmt.Sprintf("(= %s %s)", name, in.T)))
	}
	g.vals[phi] = sv
	g.rangeFact(sv)
}

// ---------------------------------------------------------------- loops

func (g *VCGen) loopModifiedHeaps(li *loopInfo) (heaps map[string]bool, allocs bool, all bool) {
	heaps = map[string]bool{}
	for b := range li.blocks {
		for _, in := range b.Instrs {
			switch x := in.(type) {
			case *ssa.Store:
				heaps[g.addrHeapStatic(x.Addr)] = true
			case *ssa.MapUpdate:
				mt := x.Map.Type().Underlying().(*types.Map)
				h, _ := g.so.mapHeapFor(mt)
				heaps[h] = true
			case *ssa.Alloc, *ssa.MakeSlice, *ssa.MakeMap, *ssa.MakeChan, *ssa.MakeClosure:
				allocs = true
				if a, ok := x.(*ssa.Alloc); ok {
					heaps[g.allocHeap(a)] = true
				}
				if ms, ok := x.(*ssa.MakeSlice); ok {
					heaps[g.so.sliceHeapFor(ms.Type().Underlying().(*types.Slice).Elem())] = true
				}
				if mm, ok := x.(*ssa.MakeMap); ok {
					h, _ := g.so.mapHeapFor(mm.Type().Underlying().(*types.Map))
					heaps[h] = true
				}
			case ssa.CallInstruction:
				hs, al, everything := g.calleeEffects(x)
				for _, h := range hs {
					heaps[h] = true
				}
				if al {
					allocs = true
				}
				if everything {
					all = true
				}
			case *ssa.Next:
				if k := g.iterKeyStatic(x.Iter); k != "" {
					heaps[k] = true
				}
			}
		}
	}
	return
}

func (g *VCGen) allocHeap(a *ssa.Alloc) string {
	et := a.Type().Underlying().(*types.Pointer).Elem()
	if at, ok := et.Underlying().(*types.Array); ok {
		return g.so.sliceHeapFor(at.Elem())
	}
	return g.so.heapFor(et)
}

// addrHeapStatic: which heap does a store through this address value touch
func (g *VCGen) addrHeapStatic(v ssa.Value) string {
	switch x := v.(type) {
	case *ssa.FieldAddr:
		return g.addrHeapStatic(x.X)
	case *ssa.IndexAddr:
		switch t := x.X.Type().Underlying().(type) {
		case *types.Slice:
			return g.so.sliceHeapFor(t.Elem())
		case *types.Pointer:
			return g.so.sliceHeapFor(t.Elem().Underlying().(*types.Array).Elem())
		}
	case *ssa.Global:
		t := x.Type().(*types.Pointer).Elem()
		return g.so.heap("G!"+smtSym(x.Pkg.Pkg.Name()+"."+x.Name()), g.so.sortOf(t))
	case *ssa.Alloc:
		return g.allocHeap(x)
	}
	if pt, ok := v.Type().Underlying().(*types.Pointer); ok {
		if at, ok := pt.Elem().Underlying().(*types.Array); ok {
			return g.so.sliceHeapFor(at.Elem())
		}
		return g.so.heapFor(pt.Elem())
	}
	panic(unsupported("store through " + v.String()))
}

func (g *VCGen) headerLocals(li *loopInfo) func(string) (SpecVal, bool) {
	return g.localsAt(li.header, nil)
}

// localsAt resolves a source-level variable name to the SSA value holding it at the head of block b.
// subst overrides phi values (edge substitution).
func (g *VCGen) localsAt(b *ssa.BasicBlock, subst map[ssa.Value]SpecVal) func(string) (SpecVal, bool) {
	return g.localsAtInstr(b, nil, subst)
}

// localsAtInstr: like localsAt, but names are resolved as of just before instruction upTo of block b
// (definitions earlier in the same block are visible).
func (g *VCGen) localsAtInstr(b *ssa.BasicBlock, upTo ssa.Instruction, subst map[ssa.Value]SpecVal) func(string) (SpecVal, bool) {
	return func(name string) (SpecVal, bool) {
		if upTo != nil {
			// the latest definition in this block before upTo
			var last *ssa.DebugRef
			for _, in := range b.Instrs {
				if in == upTo {
					break
				}
				if dr, ok := in.(*ssa.DebugRef); ok && dr.Object() != nil && dr.Object().Name() == name && !dr.IsAddr {
					last = dr
				}
			}
			if last != nil {
				if c, ok := last.X.(*ssa.Const); ok {
					return g.constVal(c), true
				}
				if s, ok := g.vals[last.X]; ok {
					return s, true
				}
			}
		}
		if name == "rangeover" {
			// the slice a 'for … := range <expr>' loop iterates over (it has no source name when <expr> is a call):
			// found through the element access indexed by the hidden range index of the innermost enclosing loop
			var hdr *ssa.BasicBlock
			for _, li := range g.loopList {
				if li.blocks[b] && (hdr == nil || g.loops[hdr].blocks[li.header]) {
					hdr = li.header
				}
			}
			if hdr != nil {
				for _, in := range hdr.Instrs {
					phi, ok := in.(*ssa.Phi)
					if !ok || phi.Comment != "rangeindex" {
						continue
					}
					for bb := range g.loops[hdr].blocks {
						for _, in2 := range bb.Instrs {
							ia, ok := in2.(*ssa.IndexAddr)
							if !ok {
								continue
							}
							if add, ok := ia.Index.(*ssa.BinOp); ok && add.Op == token.ADD && add.X == ssa.Value(phi) {
								if s, ok := g.vals[ia.X]; ok {
									return s, true
								}
							}
						}
					}
				}
			}
			return SpecVal{}, false
		}
		if strings.HasPrefix(name, "$") {
			// escape hatch: SSA value by name
			for _, bb := range g.fn.Blocks {
				for _, in := range bb.Instrs {
					if v, ok := in.(ssa.Value); ok && v.Name() == name[1:] {
						if s, ok := subst[v]; ok {
							return s, true
						}
						if s, ok := g.vals[v]; ok {
							return s, true
						}
					}
				}
			}
			return SpecVal{}, false
		}
		// 1. phi at this block with that comment
		for _, in := range b.Instrs {
			phi, ok := in.(*ssa.Phi)
			if !ok {
				break
			}
			if os.Getenv("PVDEBUG") != "" {
				fmt.Fprintf(os.Stderr, "localsAt %s: phi %s comment %q\n", name, phi.Name(), phi.Comment)
			}
			if phi.Comment == name {
				if s, ok := subst[phi]; ok {
					return s, true
				}
				if s, ok := g.vals[phi]; ok {
					return s, true
				}
			}
		}
		// 1b. a variable that lives in a local cell (address-taken or assigned in place): read the cell
		for _, bb := range g.fn.Blocks {
			if !bb.Dominates(b) {
				continue
			}
			for _, in := range bb.Instrs {
				if al, ok := in.(*ssa.Alloc); ok && al.Comment == name {
					if t, ok := g.forwardedLoad(al, b, nil); ok && (singleStore(al).Block() != b) {
						et := al.Type().Underlying().(*types.Pointer).Elem()
						return SpecVal{t, g.so.sortOf(et), et}, true
					}
					if sv, ok := g.vals[al]; ok {
						et := al.Type().Underlying().(*types.Pointer).Elem()
						if _, isArr := et.Underlying().(*types.Array); !isArr && !g.isImmutable(et) {
							a := g.objAddr(sv.T, et)
							return SpecVal{g.load(g.cur, a), g.so.sortOf(et), et}, true
						}
					}
				}
			}
		}
		// 2. nearest dominating definition: walk DebugRefs; choose the one whose block dominates b, latest in dominator depth
		var best *ssa.DebugRef
		for _, bb := range g.fn.Blocks {
			if !(bb.Dominates(b)) {
				continue
			}
			for _, in := range bb.Instrs {
				dr, ok := in.(*ssa.DebugRef)
				if !ok || dr.Object() == nil || dr.Object().Name() != name {
					continue
				}
				if bb == b {
					// only refs before the first non-phi? take refs in header too (values defined from phis)
					if _, isPhi := dr.X.(*ssa.Phi); !isPhi {
						continue
					}
				}
				if best == nil || best.Block().Dominates(bb) {
					best = dr
				}
			}
		}
		// also phis in dominating blocks carrying the name
		var bestPhi *ssa.Phi
		for _, bb := range g.fn.Blocks {
			if !bb.Dominates(b) || bb == b {
				continue
			}
			for _, in := range bb.Instrs {
				phi, ok := in.(*ssa.Phi)
				if !ok {
					break
				}
				if phi.Comment == name && (bestPhi == nil || bestPhi.Block().Dominates(bb)) {
					bestPhi = phi
				}
			}
		}
		if bestPhi != nil && (best == nil || best.Block().Dominates(bestPhi.Block())) {
			if s, ok := g.vals[bestPhi]; ok {
				return s, true
			}
		}
		if best != nil {
			if best.IsAddr {
				if a, ok := g.addrs[best.X]; ok {
					return SpecVal{g.load(g.cur, a), g.so.sortOf(a.Elem), a.Elem}, true
				}
				if sv, ok := g.vals[best.X]; ok {
					pt := best.X.Type().Underlying().(*types.Pointer)
					a := g.objAddr(sv.T, pt.Elem())
					return SpecVal{g.load(g.cur, a), g.so.sortOf(pt.Elem()), pt.Elem()}, true
				}
				return SpecVal{}, false
			}
			if s, ok := subst[best.X]; ok {
				return s, true
			}
			if c, ok := best.X.(*ssa.Const); ok {
				return g.constVal(c), true
			}
			if s, ok := g.vals[best.X]; ok {
				return s, true
			}
		}
		return SpecVal{}, false
	}
}

func (g *VCGen) loopEnv(li *loopInfo, st *State, subst map[ssa.Value]SpecVal) *SpecEnv {
	env := g.ownEnv(st)
	env.locals = g.localsAt(li.header, subst)
	return env
}

// rangeIndexInv: -1 <= idx < N where the header compares idx+1 < N
func (g *VCGen) rangeIndexInv(phi *ssa.Phi, term string) string {
	inv := fmt.Sprintf("(>= %s (- 1))", term)
	for _, in := range phi.Block().Instrs {
		if cmp, ok := in.(*ssa.BinOp); ok && cmp.Op == token.LSS {
			if add, ok := cmp.X.(*ssa.BinOp); ok && add.Op == token.ADD && add.X == ssa.Value(phi) {
				if n, ok := g.vals[cmp.Y]; ok {
					inv = fmt.Sprintf("(and %s (< %s %s))", inv, term, n.T)
				} else if c, ok := cmp.Y.(*ssa.Const); ok {
					inv = fmt.Sprintf("(and %s (< %s %s))", inv, term, g.constVal(c).T)
				}
			}
		}
	}
	return inv
}

func (g *VCGen) loopName(li *loopInfo) string { return fmt.Sprintf("loop%d", li.index) }

func (g *VCGen) checkInvariants(li *loopInfo, st *State, subst map[ssa.Value]SpecVal, phase string, pos token.Pos) {
	if li.lc == nil {
		return
	}
	for _, in := range li.header.Instrs {
		phi, ok := in.(*ssa.Phi)
		if !ok {
			break
		}
		if phi.Comment == "rangeindex" {
			if sv, ok := subst[phi]; ok {
				g.oblige(fmt.Sprintf("%s.rangeindex.%s", g.loopName(li), phase), "invariant", g.rangeIndexInv(phi, sv.T), "range index within -1 .. len-1", pos)
			}
		}
	}
	save := g.cur
	g.cur = st
	env := g.loopEnv(li, st, subst)
	for k, c := range li.lc.Invariants {
		g.oblige(fmt.Sprintf("%s.inv.%s.%d", g.loopName(li), phase, k), "invariant", g.trGoal(env, c), c.Text, pos)
	}
	g.cur = save
}

func (g *VCGen) loopHeader(b *ssa.BasicBlock, li *loopInfo, preds []*ssa.BasicBlock) {
	if li.lc == nil {
		// a loop the contract says nothing about: invariant "true" (everything the body may modify is unknown after
		// it). Sound; obligations that depend on what the loop does will fail and name the missing invariant's effect.
		li.lc = &LoopContract{}
		g.warnings = append(g.warnings, fmt.Sprintf("loop %d has no invariant block: verified with the invariant 'true'", li.index))
	}
	pos := g.loopPos(b)
	// 1. invariants on entry edges
	for _, p := range preds {
		subst := map[ssa.Value]SpecVal{}
		for _, in := range b.Instrs {
			phi, ok := in.(*ssa.Phi)
			if !ok {
				break
			}
			for i, pp := range b.Preds {
				if pp == p {
					subst[phi] = g.val(phi.Edges[i])
				}
			}
		}
		g.pathCond = g.edge(p, b)
		g.checkInvariants(li, g.exitSt[p], subst, "entry", pos)
	}
	// 2. havoc
	st := g.mergeStates(b, preds)
	pre := st.clone()
	heaps, allocs, all := g.loopModifiedHeaps(li)
	if all {
		// an open-world call inside the loop: every heap, including ones not mentioned yet, is havocked
		for h := range g.so.heaps {
			heaps[h] = true
		}
		st.epoch = g.eng.nextEpoch()
		for h := range st.heaps {
			if !g.immutableHeap(h) && !(strings.HasPrefix(h, "IT!") && !heapsStoredInLoop(g, li)[h]) {
				delete(st.heaps, h)
			}
		}
	}
	for h := range heaps {
		if g.immutableHeap(h) {
			continue
		}
		name := g.freshName(h + "@loop" + fmt.Sprint(li.index))
		g.declare(name, g.so.heaps[h])
		st.heaps[h] = name
	}
	if allocs || all {
		nr := g.freshConst("nextRef@loop"+fmt.Sprint(li.index), "Int")
		g.assume(fmt.Sprintf("(>= %s %s)", nr, pre.nextRef))
		st.nextRef = nr
	}
	g.cur = st
	g.pathCond = g.reach[b]
	for _, in := range b.Instrs {
		phi, ok := in.(*ssa.Phi)
		if !ok {
			break
		}
		sv := g.havocVal(phi)
		g.assumeHere(g.allocFact(sv.T, phi.Type(), st))
		if phi.Comment == "rangeindex" {
			// range over a slice/array: the hidden index stays within -1 .. len-1 (built-in invariant, checked at entry and back edges)
			g.assumeHere(g.rangeIndexInv(phi, sv.T))
		}
	}
	// local cells whose address never escapes and which the loop body does not store to keep their contents
	// (no callee, however open-world, can reach them)
	storedAllocs := map[ssa.Value]bool{}
	for bb := range li.blocks {
		for _, in := range bb.Instrs {
			if sx, ok := in.(*ssa.Store); ok {
				storedAllocs[rootPointer(sx.Addr)] = true
			}
		}
	}
	for v, sv := range g.vals {
		al, ok := v.(*ssa.Alloc)
		if !ok || storedAllocs[al] || !privateAlloc(al) {
			continue
		}
		et := al.Type().Underlying().(*types.Pointer).Elem()
		if _, isArr := et.Underlying().(*types.Array); isArr || g.isImmutable(et) {
			continue
		}
		heap := g.so.heapFor(et)
		if g.heapTerm(st, heap) != g.heapTerm(pre, heap) {
			g.assumeHere(fmt.Sprintf("(= (select %s %s) (select %s %s))", g.heapTerm(st, heap), sv.T, g.heapTerm(pre, heap), sv.T))
		}
	}
	if fs := g.snapshotSliceFacts(pre, st); len(fs) > 0 {
		g.assumeHere(and(fs...))
	}
	// a private library iterator/builder that the loop body never uses keeps its state (the loop only havocs the
	// objects it calls methods on, although they share a model heap)
	for v, sv := range g.vals {
		call, ok := v.(*ssa.Call)
		if !ok || !privateLibObj(call) {
			continue
		}
		usedInLoop := false
		for _, r := range *call.Referrers() {
			if ri, ok := r.(ssa.Instruction); ok && li.blocks[ri.Block()] {
				if _, isDbg := r.(*ssa.DebugRef); !isDbg {
					usedInLoop = true
				}
			}
		}
		if usedInLoop {
			continue
		}
		if heap, ok := g.libObjHeap(call); ok && g.heapTerm(st, heap) != g.heapTerm(pre, heap) {
			g.assumeHere(fmt.Sprintf("(= (select %s %s) (select %s %s))", g.heapTerm(st, heap), sv.T, g.heapTerm(pre, heap), sv.T))
		}
	}
	if all {
		for _, l := range g.callbacksKeepLocs(pre) {
			a, b := g.heapTerm(pre, l.heap), g.heapTerm(st, l.heap)
			if a == b {
				continue
			}
			switch l.kind {
			case "heap", "global":
				g.assumeHere(fmt.Sprintf("(= %s %s)", b, a))
			case "obj":
				g.assumeHere(fmt.Sprintf("(= (select %s %s) (select %s %s))", b, l.ref, a, l.ref))
			case "field":
				sel := g.so.fieldSel(l.sort, l.st.Field(l.field).Name(), l.field)
				g.assumeHere(fmt.Sprintf("(= (%s (select %s %s)) (%s (select %s %s)))", sel, b, l.ref, sel, a, l.ref))
			}
		}
	}
	li.hdrState = st.clone()
	// 3. assume invariants
	env := g.loopEnv(li, st, nil)
	for _, c := range li.lc.Invariants {
		g.assumeHere(g.trClause(env, c))
	}
	// implicit: function frame so far, and allocation monotonicity
	if f := g.frameSoFar(st); f != "true" {
		g.assumeHere(f)
	}
	for _, u := range li.lc.ExitUses {
		g.assumeHere(g.lemmaInstance(env, u))
	}
	// 4. variant
	if li.lc.Decreases != nil {
		v := env.tr(li.lc.Decreases.E)
		if v.Sort != "Int" {
			panic(specErr("decreases must be Int"))
		}
		name := g.freshConst("variant@loop"+fmt.Sprint(li.index), "Int")
		g.assume(fmt.Sprintf("(= %s %s)", name, v.T))
		li.decrAt = name
	} else if g.fc != nil && hasProp(g.fc.Props, "terminates") {
		// the contract promises a bounded delay: a loop whose termination is not argued is a failed obligation
		g.oblige(g.loopName(li)+".decreases.missing", "termination", "false", "the contract of this function states that it terminates (props terminates): every loop needs a decreases clause", g.loopPos(li.header))
	} else if !(g.fc != nil && hasProp(g.fc.Props, "noterm")) {
		g.warnings = append(g.warnings, fmt.Sprintf("loop %d has no decreases clause", li.index))
	}
}

func (g *VCGen) loopBackEdge(from, h *ssa.BasicBlock) {
	li := g.loops[h]
	subst := map[ssa.Value]SpecVal{}
	for _, in := range h.Instrs {
		phi, ok := in.(*ssa.Phi)
		if !ok {
			break
		}
		for i, pp := range h.Preds {
			if pp == from {
				subst[phi] = g.val(phi.Edges[i])
			}
		}
	}
	savePC, saveCur := g.pathCond, g.cur
	g.pathCond = g.edge(from, h)
	pos := g.loopPos(h)
	if li.lc != nil {
		g.cur = g.exitSt[from]
		env := g.loopEnv(li, g.exitSt[from], subst)
		env.hdr = g.loopEnv(li, li.hdrState, nil)
		for _, u := range li.lc.Uses {
			g.assumeHere(g.lemmaInstance(env, u))
		}
		for k, a := range li.lc.Asserts {
			nm := fmt.Sprintf("%s.assert.%d", g.loopName(li), k)
			if nbackEdges(g, h) > 1 {
				nm = fmt.Sprintf("%s.assert@b%d.%d", g.loopName(li), from.Index, k)
			}
			g.oblige(nm, "invariant", g.trGoal(env, a), "cut: "+a.Text, pos)
			g.assumeHere(g.trClause(env, a))
		}
		g.cur = saveCur
	}
	phase := "preserve"
	nback := 0
	for _, p := range h.Preds {
		if g.backEdge[[2]int{p.Index, h.Index}] {
			nback++
		}
	}
	if nback > 1 {
		phase = fmt.Sprintf("preserve@b%d", from.Index)
	}
	g.checkInvariants(li, g.exitSt[from], subst, phase, pos)
	if f := g.frameSoFar(g.exitSt[from]); f != "true" {
		g.oblige(g.loopName(li)+".frame.preserve", "frame", f, "modifies clause respected by loop body", pos)
	}
	if li.decrAt != "" {
		g.cur = g.exitSt[from]
		env := g.loopEnv(li, g.exitSt[from], subst)
		v := env.tr(li.lc.Decreases.E)
		g.oblige(g.loopName(li)+".decreases", "termination", fmt.Sprintf("(and (>= %s 0) (< %s %s))", li.decrAt, v.T, li.decrAt), "decreases "+li.lc.Decreases.Text, pos)
	}
	g.pathCond, g.cur = savePC, saveCur
}

func (g *VCGen) immutableHeap(h string) bool {
	if g.eng.immHeaps[h] {
		return true
	}
	if !g.immTypesDone {
		g.immTypesDone = true
		for _, al := range g.eng.contracts.ImmHeapTypes {
			gt := g.eng.evalGoType(al)
			if sl, ok := gt.Underlying().(*types.Slice); ok {
				g.eng.immHeaps[g.so.sliceHeapFor(sl.Elem())] = true
			} else {
				g.eng.immHeaps[g.so.heapFor(gt)] = true
			}
		}
		return g.eng.immHeaps[h]
	}
	return false
}

// ---------------------------------------------------------------- instructions

func (g *VCGen) instr(in ssa.Instruction) {
	switch x := in.(type) {
	case *ssa.DebugRef:
		return
	case *ssa.Alloc:
		g.alloc(x)
	case *ssa.FieldAddr:
		g.fieldAddr(x)
	case *ssa.IndexAddr:
		g.indexAddr(x)
	case *ssa.Field:
		sv := g.val(x.X)
		st := x.X.Type().Underlying().(*types.Struct)
		sn := g.so.sortOf(x.X.Type())
		g.define(x, fmt.Sprintf("(%s %s)", g.so.fieldSel(sn, st.Field(x.Field).Name(), x.Field), sv.T))
	case *ssa.UnOp:
		g.unop(x)
	case *ssa.BinOp:
		g.binop(x)
	case *ssa.Store:
		g.checkProtected(x.Addr, true, x.Pos())
		g.storeInstr(x)
	case *ssa.Call:
		g.callInstr(x, x)
	case *ssa.Extract:
		t, ok := g.tuples[x.Tuple]
		if !ok {
			panic(unsupported("extract from untranslated tuple " + x.Tuple.String()))
		}
		sv := t[x.Index]
		if sv.Sort == "" {
			panic(unsupported("extract of unmodelled tuple component"))
		}
		g.vals[x] = sv
	case *ssa.MakeInterface:
		g.makeInterface(x)
	case *ssa.ChangeInterface:
		g.vals[x] = SpecVal{g.val(x.X).T, "Iface", x.Type()}
	case *ssa.ChangeType:
		sv := g.val(x.X)
		g.vals[x] = SpecVal{sv.T, g.so.sortOf(x.Type()), x.Type()}
	case *ssa.Convert:
		g.convert(x)
	case *ssa.TypeAssert:
		g.typeAssert(x)
	case *ssa.Slice:
		g.sliceInstr(x)
	case *ssa.MakeSlice:
		g.makeSlice(x)
	case *ssa.MakeMap:
		g.makeMap(x)
	case *ssa.Lookup:
		g.lookup(x)
	case *ssa.MapUpdate:
		g.mapUpdate(x)
	case *ssa.Range:
		g.rangeInstr(x)
	case *ssa.Next:
		g.nextInstr(x)
	case *ssa.MakeClosure:
		g.makeClosure(x)
	case *ssa.If:
		c := g.val(x.Cond).T
		b := x.Block()
		g.edgeCond[[2]int{b.Index, b.Succs[0].Index}] = c
		if b.Succs[0] != b.Succs[1] {
			g.edgeCond[[2]int{b.Index, b.Succs[1].Index}] = not(c)
		} else {
			g.edgeCond[[2]int{b.Index, b.Succs[0].Index}] = "true"
		}
	case *ssa.Jump:
	case *ssa.Return:
		g.ret(x)
	case *ssa.Panic:
		g.panicInstr(x)
	case *ssa.Defer:
		g.deferInstr(x)
	case *ssa.RunDefers:
		g.runDefers(x)
	case *ssa.Go:
		g.goInstr(x)
	case *ssa.Send:
		g.sendInstr(x)
	case *ssa.Select:
		g.selectInstr(x)
	case *ssa.MakeChan:
		g.makeChan(x)
	case *ssa.Index:
		g.indexInstr(x)
	default:
		panic(unsupported(fmt.Sprintf("instruction %T: %s", in, in.String())))
	}
}

func (g *VCGen) newRef() string {
	r := g.freshConst("ref", "Int")
	g.assume(fmt.Sprintf("(= %s %s)", r, g.cur.nextRef))
	nr := g.freshConst("nextRef", "Int")
	g.assume(fmt.Sprintf("(= %s (+ %s 1))", nr, g.cur.nextRef))
	g.cur.nextRef = nr
	return r
}

func (g *VCGen) alloc(x *ssa.Alloc) {
	et := x.Type().Underlying().(*types.Pointer).Elem()
	r := g.newRef()
	g.vals[x] = SpecVal{r, "Int", x.Type()}
	if at, ok := et.Underlying().(*types.Array); ok {
		heap := g.so.sliceHeapFor(at.Elem())
		h := g.heapTerm(g.cur, heap)
		es := g.so.sortOf(at.Elem())
		g.setHeap(g.cur, heap, fmt.Sprintf("(store %s %s ((as const (Array Int %s)) %s))", h, r, es, g.so.zero(at.Elem())))
		return
	}
	if g.isImmutable(et) {
		g.freshImm[x] = true
		g.checkUnstoredFieldInvs(x, et)
		return
	}
	a := g.objAddr(r, et)
	g.store(g.cur, a, g.so.zero(et))
	if st, ok := et.Underlying().(*types.Struct); ok {
		for i := 0; i < st.NumFields(); i++ {
			if g.eng.isOutOfLine(et, st, i) {
				ft := st.Field(i).Type()
				g.store(g.cur, g.objAddr(fmt.Sprintf("(fld %s %d)", r, i), ft), g.so.zero(ft))
			}
		}
	}
}

func (g *VCGen) nilCheck(v ssa.Value, term string, pos token.Pos) {
	if _, ok := v.(*ssa.Alloc); ok {
		return
	}
	if _, ok := v.(*ssa.Global); ok {
		return
	}
	if p, ok := v.(*ssa.Parameter); ok && g.fn.Signature.Recv() != nil && len(g.fn.Params) > 0 && g.fn.Params[0] == p {
		return
	}
	goal := fmt.Sprintf("(not (= %s 0))", term)
	g.oblige(fmt.Sprintf("nopanic.nil@%s", v.Name()), "nopanic", goal, "nil dereference of "+v.Name(), pos)
	g.assumeHere(goal)
}

func (g *VCGen) fieldAddr(x *ssa.FieldAddr) {
	pt := x.X.Type().Underlying().(*types.Pointer)
	st := pt.Elem().Underlying().(*types.Struct)
	var base *Addr
	if g.eng.isOutOfLine(pt.Elem(), st, x.Field) {
		// out-of-line field cell: a real pointer value fld(owner, field)
		owner, ok := g.vals[x.X]
		if !ok {
			panic(unsupported("out-of-line field " + st.Field(x.Field).Name() + " of an interior address"))
		}
		g.nilCheck(x.X, owner.T, x.Pos())
		ref := fmt.Sprintf("(fld %s %d)", owner.T, x.Field)
		ft := st.Field(x.Field).Type()
		g.vals[x] = SpecVal{ref, "Int", x.Type()}
		g.addrs[x] = g.objAddr(ref, ft)
		return
	}
	if a, ok := g.addrs[x.X]; ok {
		base = a
	} else {
		sv := g.val(x.X)
		g.nilCheck(x.X, sv.T, x.Pos())
		base = g.objAddr(sv.T, pt.Elem())
	}
	na := *base
	na.Path = append(append([]pathStep{}, base.Path...), pathStep{g.so.sortOf(pt.Elem()), x.Field, st})
	na.Elem = st.Field(x.Field).Type()
	g.addrs[x] = &na
}

func (g *VCGen) indexAddr(x *ssa.IndexAddr) {
	i := g.val(x.Index)
	switch t := x.X.Type().Underlying().(type) {
	case *types.Slice:
		s := g.val(x.X)
		goal := fmt.Sprintf("(and (<= 0 %s) (< %s (s.len %s)))", i.T, i.T, s.T)
		if g.fc != nil && g.fc.MayPanic && hasProp(g.fc.Props, "indexpanics") {
			// the contract admits index-out-of-range panics (malformed input): the path continues in range
			g.warnings = append(g.warnings, fmt.Sprintf("index at %s may panic (admitted by the contract: maypanic + indexpanics)", g.fn.Prog.Fset.Position(x.Pos())))
		} else {
			g.oblige(fmt.Sprintf("nopanic.index@%s", x.Name()), "nopanic", goal, "index out of range", x.Pos())
		}
		g.assumeHere(goal)
		heap := g.so.sliceHeapFor(t.Elem())
		g.addrs[x] = &Addr{Kind: "elem", Heap: heap, Ref: fmt.Sprintf("(s.base %s)", s.T), Idx: fmt.Sprintf("(sidx (s.off %s) %s)", s.T, i.T), Elem: t.Elem(), Root: t.Elem()}
	case *types.Pointer:
		at := t.Elem().Underlying().(*types.Array)
		p := g.val(x.X)
		goal := fmt.Sprintf("(and (<= 0 %s) (< %s %d))", i.T, i.T, at.Len())
		if _, isC := x.Index.(*ssa.Const); !isC {
			g.oblige(fmt.Sprintf("nopanic.index@%s", x.Name()), "nopanic", goal, "array index out of range", x.Pos())
			g.assumeHere(goal)
		}
		heap := g.so.sliceHeapFor(at.Elem())
		g.addrs[x] = &Addr{Kind: "elem", Heap: heap, Ref: p.T, Idx: i.T, Elem: at.Elem(), Root: at.Elem()}
	default:
		panic(unsupported("IndexAddr on " + x.X.Type().String()))
	}
}

func (g *VCGen) indexInstr(x *ssa.Index) {
	switch x.X.Type().Underlying().(type) {
	case *types.Array:
		a := g.val(x.X)
		i := g.val(x.Index)
		g.define(x, fmt.Sprintf("(select %s %s)", a.T, i.T))
	default:
		g.havocVal(x) // string indexing etc.: unconstrained byte
	}
}

func (g *VCGen) unop(x *ssa.UnOp) {
	switch x.Op {
	case token.MUL: // load
		g.checkProtected(x.X, false, x.Pos())
		if t, ok := g.forwardedLoad(x.X, x.Block(), x); ok {
			sv := g.define(x, t)
			g.assumeHere(g.allocFact(sv.T, x.Type(), g.cur))
			return
		}
		a := g.addrOf(x.X)
		if g.eng.hasOutOfLineFields(a.Elem) {
			// struct values are self-contained: read the out-of-line cells into the copy
			if a.Kind != "obj" || len(a.Path) != 0 {
				panic(unsupported("copy of a nested struct with out-of-line fields: " + a.Elem.String()))
			}
			st := a.Elem.Underlying().(*types.Struct)
			sn := g.so.sortOf(a.Elem)
			cell := g.loadCell(g.cur, a)
			var parts []string
			for i := 0; i < st.NumFields(); i++ {
				if g.eng.isOutOfLine(a.Elem, st, i) {
					ft := st.Field(i).Type()
					parts = append(parts, g.load(g.cur, g.objAddr(fmt.Sprintf("(fld %s %d)", a.Ref, i), ft)))
				} else {
					parts = append(parts, fmt.Sprintf("(%s %s)", g.so.fieldSel(sn, st.Field(i).Name(), i), cell))
				}
			}
			sv := g.define(x, "(mk!"+sn+" "+strings.Join(parts, " ")+")")
			g.assumeHere(g.allocFact(sv.T, x.Type(), g.cur))
			return
		}
		if a.Kind == "obj" && len(a.Path) == 0 {
			if _, isAddr := g.addrs[x.X]; !isAddr {
				g.nilCheck(x.X, a.Ref, x.Pos())
			}
		}
		sv := g.define(x, g.load(g.cur, a))
		allocSt := g.cur
		if a.Heap != "" && g.entry != nil && g.cur.epoch == g.entry.epoch && g.heapTerm(g.cur, a.Heap) == g.heapTerm(g.entry, a.Heap) {
			// this heap has not been written since entry (allocation writes it too): the value was already there at
			// entry, so what it refers to was allocated by then
			allocSt = g.entry
		}
		g.assumeHere(g.allocFact(sv.T, x.Type(), allocSt))
		if a.Imm {
			if inv, ok := g.fieldInv(a); ok && !g.freshImm[rootPointer(x.X)] {
				env := &SpecEnv{g: g, vars: map[string]SpecVal{"value": sv}, cur: g.cur, old: g.cur, pkg: g.eng.typesPkg(inv.pkg)}
				g.assumeHere(g.trClause(env, inv.c))
			}
		}
	case token.NOT:
		g.define(x, not(g.val(x.X).T))
	case token.SUB:
		v := g.val(x.X)
		if w := wrapFn(x.Type()); w != "" {
			g.define(x, fmt.Sprintf("(%s (- %s))", w, v.T))
		} else {
			g.define(x, fmt.Sprintf("(- %s)", v.T))
		}
	case token.ARROW:
		g.recvInstr(x)
	case token.XOR:
		g.havocVal(x)
	default:
		panic(unsupported("unop " + x.Op.String()))
	}
}

func (g *VCGen) binop(x *ssa.BinOp) {
	l, r := g.val(x.X), g.val(x.Y)
	t := x.X.Type()
	switch x.Op {
	case token.EQL, token.NEQ:
		if l.Sort != r.Sort {
			panic(unsupported(fmt.Sprintf("comparison of %s and %s", l.Sort, r.Sort)))
		}
		e := g.eqTerm(l, r, t)
		if x.Op == token.NEQ {
			e = not(e)
		}
		g.define(x, e)
		return
	case token.LSS, token.LEQ, token.GTR, token.GEQ:
		if l.Sort == "Str" {
			g.havocVal(x)
			return
		}
		op := map[token.Token]string{token.LSS: "<", token.LEQ: "<=", token.GTR: ">", token.GEQ: ">="}[x.Op]
		g.define(x, fmt.Sprintf("(%s %s %s)", op, l.T, r.T))
		return
	}
	if l.Sort == "Str" && x.Op == token.ADD {
		g.define(x, fmt.Sprintf("(str.cat %s %s)", l.T, r.T))
		return
	}
	if l.Sort == "Real" {
		g.havocVal(x)
		return
	}
	if l.Sort != "Int" {
		panic(unsupported("binop " + x.Op.String() + " on " + l.Sort))
	}
	w := wrapFn(x.Type())
	wrap := func(s string) string {
		if w == "" {
			return s
		}
		return "(" + w + " " + s + ")"
	}
	switch x.Op {
	case token.ADD:
		g.define(x, wrap(fmt.Sprintf("(+ %s %s)", l.T, r.T)))
	case token.SUB:
		g.define(x, wrap(fmt.Sprintf("(- %s %s)", l.T, r.T)))
	case token.MUL:
		g.define(x, wrap(mulTerm(l.T, r.T)))
	case token.QUO, token.REM:
		if c, ok := x.Y.(*ssa.Const); !ok || c.Value == nil || c.Value.ExactString() == "0" {
			goal := fmt.Sprintf("(not (= %s 0))", r.T)
			g.oblige(fmt.Sprintf("nopanic.divzero@%s", x.Name()), "nopanic", goal, "integer division by zero", x.Pos())
			g.assumeHere(goal)
		}
		_, constDiv := x.Y.(*ssa.Const)
		if !constDiv && !(g.fc != nil && hasProp(g.fc.Props, "nonlinear")) {
			// symbolic divisor: uninterpreted quotient/remainder with linear facts only (keeps queries out of NLA)
			g.symDiv(x, l, r, isUnsigned(t))
			return
		}
		if isUnsigned(t) {
			if x.Op == token.QUO {
				g.define(x, fmt.Sprintf("(div %s %s)", l.T, r.T))
			} else {
				g.define(x, fmt.Sprintf("(mod %s %s)", l.T, r.T))
			}
		} else {
			if x.Op == token.QUO {
				g.define(x, wrap(fmt.Sprintf("(tdiv %s %s)", l.T, r.T)))
			} else {
				g.define(x, fmt.Sprintf("(tmod %s %s)", l.T, r.T))
			}
		}
	case token.XOR:
		if w == "wrap_u32" {
			g.define(x, fmt.Sprintf("(xor32 %s %s)", l.T, r.T))
			g.so.done["uses:xor32"] = true
		} else {
			g.havocVal(x)
		}
	case token.AND, token.OR, token.SHL, token.SHR, token.AND_NOT:
		g.havocVal(x)
	default:
		panic(unsupported("binop " + x.Op.String()))
	}
}

// symDiv: x / y and x % y for a symbolic divisor. q and r are uninterpreted functions of (x,y) constrained
// by linear consequences of x = y*q + r, |r| < |y|, sign(r) = sign(x) (Go truncated division).
func (g *VCGen) symDiv(x *ssa.BinOp, l, r SpecVal, unsigned bool) {
	if !g.so.done["symdiv"] {
		g.so.done["symdiv"] = true
		g.specDecls = append(g.specDecls, "(declare-fun go.quo (Int Int) Int)", "(declare-fun go.rem (Int Int) Int)")
	}
	q := fmt.Sprintf("(go.quo %s %s)", l.T, r.T)
	m := fmt.Sprintf("(go.rem %s %s)", l.T, r.T)
	key := "symdivfacts:" + l.T + "/" + r.T
	if !g.so.done[key] {
		g.so.done[key] = true
		a, b := l.T, r.T
		facts := []string{
			fmt.Sprintf("(=> (not (= %s 0)) (= %s (+ %s %s)))", b, a, mulTerm(b, q), m),
			fmt.Sprintf("(=> (and (> %s 0) (<= 0 %s) (< %s %s)) (and (= %s 0) (= %s %s)))", b, a, a, b, q, m, a),
			fmt.Sprintf("(=> (and (> %s 0) (<= %s %s) (< %s (* 2 %s))) (and (= %s 1) (= %s (- %s %s))))", b, b, a, a, b, q, m, a, b),
			fmt.Sprintf("(=> (and (> %s 0) (>= %s 0)) (and (<= 0 %s) (< %s %s) (<= 0 %s) (<= %s %s)))", b, a, m, m, b, q, q, a),
		}
		if !unsigned {
			facts = append(facts,
				fmt.Sprintf("(=> (and (> %s 0) (< %s 0)) (and (<= %s 0) (< (- %s) %s) (<= %s 0) (<= %s %s)))", b, a, m, m, b, q, a, q),
				fmt.Sprintf("(=> (and (< %s 0) (>= %s 0)) (and (<= 0 %s) (< %s (- %s)) (<= %s 0)))", b, a, m, m, b, q),
				fmt.Sprintf("(=> (and (< %s 0) (< %s 0)) (and (<= %s 0) (< %s %s) (<= 0 %s)))", b, a, m, b, m, q),
			)
		}
		for _, f := range facts {
			g.assume(f)
		}
		g.usedTrusted["integer division by a non-constant divisor is modelled by its linear consequences only (quotient/remainder bounds)"] = true
	}
	if x.Op == token.QUO {
		if w := wrapFn(x.Type()); w != "" && !unsigned {
			g.define(x, fmt.Sprintf("(%s %s)", w, q))
		} else {
			g.define(x, q)
		}
	} else {
		g.define(x, m)
	}
}

// eqTerm: Go == on two values of the same static type.
func (g *VCGen) eqTerm(l, r SpecVal, t types.Type) string {
	if l.Sort == "Slice" {
		// only comparison with nil is legal
		if r.T == "nilSlice" {
			return fmt.Sprintf("(= (s.base %s) 0)", l.T)
		}
		if l.T == "nilSlice" {
			return fmt.Sprintf("(= (s.base %s) 0)", r.T)
		}
	}
	return fmt.Sprintf("(= %s %s)", l.T, r.T)
}

func (g *VCGen) storeInstr(x *ssa.Store) {
	a := g.addrOf(x.Addr)
	if g.eng.hasOutOfLineFields(a.Elem) {
		if a.Kind != "obj" || len(a.Path) != 0 || a.Imm {
			panic(unsupported("copy of a nested struct with out-of-line fields: " + a.Elem.String()))
		}
		sv := g.val(x.Val)
		st := a.Elem.Underlying().(*types.Struct)
		sn := g.so.sortOf(a.Elem)
		g.store(g.cur, a, sv.T)
		for i := 0; i < st.NumFields(); i++ {
			if g.eng.isOutOfLine(a.Elem, st, i) {
				ft := st.Field(i).Type()
				g.store(g.cur, g.objAddr(fmt.Sprintf("(fld %s %d)", a.Ref, i), ft), fmt.Sprintf("(%s %s)", g.so.fieldSel(sn, st.Field(i).Name(), i), sv.T))
			}
		}
		return
	}
	var v SpecVal
	if _, isAddr := g.addrs[x.Val]; isAddr {
		if sv, ok := g.vals[x.Val]; ok {
			v = sv
		} else {
			v = g.escapeAddr(x.Val)
		}
	} else {
		v = g.val(x.Val)
	}
	if a.Imm {
		// store into an immutable object: only allowed while it is fresh (constructor pattern) or in an initializer method
		root := rootPointer(x.Addr)
		if g.freshImm[root] || (g.fc != nil && hasProp(g.fc.Props, "initializer")) {
			if inv, ok := g.fieldInv(a); ok {
				env := &SpecEnv{g: g, vars: map[string]SpecVal{"value": {v.T, v.Sort, a.Elem}}, cur: g.cur, old: g.cur, pkg: g.eng.typesPkg(inv.pkg)}
				g.oblige("fieldinv@"+x.Addr.Name(), "invariant", g.trGoal(env, inv.c), "write-once field invariant: "+inv.c.Text, x.Pos())
			}
			g.assumeHere(fmt.Sprintf("(= %s %s)", g.load(g.cur, a), v.T))
			return
		}
		g.oblige("writeonce@"+x.Addr.Name(), "writeonce", "false", "store into an immutable (write-once) object after construction", x.Pos())
		return
	}
	if a.Kind == "obj" && len(a.Path) == 0 {
		if _, isAddr := g.addrs[x.Addr]; !isAddr {
			g.nilCheck(x.Addr, a.Ref, x.Pos())
		}
	}
	g.store(g.cur, a, v.T)
}

// singleStore: the only store into a private local cell (whole-cell store), if there is exactly one
func singleStore(al *ssa.Alloc) *ssa.Store {
	if !privateAlloc(al) {
		return nil
	}
	var st *ssa.Store
	var walk func(v ssa.Value, root bool) bool
	walk = func(v ssa.Value, root bool) bool {
		for _, r := range *v.Referrers() {
			switch x := r.(type) {
			case *ssa.Store:
				if x.Addr == v {
					if !root || st != nil {
						return false // a field store, or a second store
					}
					st = x
				}
			case *ssa.FieldAddr:
				if !walk(x, false) {
					return false
				}
			case *ssa.IndexAddr:
				return false
			}
		}
		return true
	}
	if !walk(al, true) || st == nil {
		return nil
	}
	return st
}

// forwardedLoad: a load from (a field of) a private local cell that is stored exactly once, before the load, is
// the stored value itself (keeps terms syntactically identical across heap versions).
func (g *VCGen) forwardedLoad(addr ssa.Value, blk *ssa.BasicBlock, at ssa.Instruction) (string, bool) {
	var path []*ssa.FieldAddr
	v := addr
	for {
		fa, ok := v.(*ssa.FieldAddr)
		if !ok {
			break
		}
		path = append([]*ssa.FieldAddr{fa}, path...)
		v = fa.X
	}
	al, ok := v.(*ssa.Alloc)
	if !ok {
		return "", false
	}
	et := al.Type().Underlying().(*types.Pointer).Elem()
	if g.eng.hasOutOfLineFields(et) || g.isImmutable(et) {
		return "", false
	}
	st := singleStore(al)
	if st == nil {
		return "", false
	}
	if st.Block() == blk {
		before := false
		for _, in := range blk.Instrs {
			if in == ssa.Instruction(st) {
				before = true
				break
			}
			if in == at {
				break
			}
		}
		if !before {
			return "", false
		}
	} else if !st.Block().Dominates(blk) {
		return "", false
	}
	sv, ok := g.vals[st.Val]
	if !ok {
		if c, isC := st.Val.(*ssa.Const); isC {
			sv = g.constVal(c)
		} else {
			return "", false
		}
	}
	term := sv.T
	cur := et
	for _, fa := range path {
		cst, ok := cur.Underlying().(*types.Struct)
		if !ok {
			return "", false
		}
		if g.eng.isOutOfLine(cur, cst, fa.Field) {
			return "", false
		}
		term = fmt.Sprintf("(%s %s)", g.so.fieldSel(g.so.sortOf(cur), cst.Field(fa.Field).Name(), fa.Field), term)
		cur = cst.Field(fa.Field).Type()
	}
	return term, true
}

type fieldInvRef struct {
	c   Clause
	pkg string
}

// fieldInv: declared invariant of a write-once field (address must be a first-level field of an immutable object).
func (g *VCGen) fieldInv(a *Addr) (fieldInvRef, bool) {
	if !a.Imm || len(a.Path) != 1 {
		return fieldInvRef{}, false
	}
	n, ok := a.Root.(*types.Named)
	if !ok || n.Obj().Pkg() == nil {
		return fieldInvRef{}, false
	}
	key := n.Obj().Pkg().Path() + "." + n.Obj().Name() + "." + a.Path[0].st.Field(a.Path[0].field).Name()
	c, ok := g.eng.contracts.FieldInvs[key]
	return fieldInvRef{c, n.Obj().Pkg().Path()}, ok
}

// a fresh write-once object whose invariant-carrying field is never stored keeps the zero value: check it
func (g *VCGen) checkUnstoredFieldInvs(x *ssa.Alloc, et types.Type) {
	n, ok := et.(*types.Named)
	if !ok || n.Obj().Pkg() == nil {
		return
	}
	st, ok := et.Underlying().(*types.Struct)
	if !ok {
		return
	}
	for i := 0; i < st.NumFields(); i++ {
		key := n.Obj().Pkg().Path() + "." + n.Obj().Name() + "." + st.Field(i).Name()
		c, ok := g.eng.contracts.FieldInvs[key]
		if !ok {
			continue
		}
		stored := false
		for _, ref := range *x.Referrers() {
			if fa, ok := ref.(*ssa.FieldAddr); ok && fa.Field == i {
				for _, r2 := range *fa.Referrers() {
					if _, ok := r2.(*ssa.Store); ok {
						stored = true
					}
				}
			}
		}
		if !stored {
			ft := st.Field(i).Type()
			env := &SpecEnv{g: g, vars: map[string]SpecVal{"value": {g.so.zero(ft), g.so.sortOf(ft), ft}}, cur: g.cur, old: g.cur, pkg: g.eng.typesPkg(n.Obj().Pkg().Path())}
			g.oblige("fieldinv.zero@"+x.Name()+"."+st.Field(i).Name(), "invariant", g.trGoal(env, c), "write-once field left at its zero value must satisfy: "+c.Text, x.Pos())
		}
	}
}

func rootPointer(v ssa.Value) ssa.Value {
	for {
		switch x := v.(type) {
		case *ssa.FieldAddr:
			v = x.X
		case *ssa.IndexAddr:
			v = x.X
		default:
			return v
		}
	}
}

func (g *VCGen) boxFns(sortName string) (box, unbox string) {
	box, unbox = "box!"+smtSym(sortName), "unbox!"+smtSym(sortName)
	if !g.so.done[box] {
		g.so.done[box] = true
		g.specDecls = append(g.specDecls,
			fmt.Sprintf("(declare-fun %s (%s) Int)", box, sortName),
			fmt.Sprintf("(declare-fun %s (Int) %s)", unbox, sortName),
			fmt.Sprintf("(assert (forall ((x %s)) (! (and (= (%s (%s x)) x) (> (%s x) 0)) :pattern ((%s x)))))", sortName, unbox, box, box, box))
	}
	return
}

func (g *VCGen) makeInterface(x *ssa.MakeInterface) {
	v := g.val(x.X)
	tag := g.so.typeTag(x.X.Type())
	if v.Sort == "Int" && !isIntType(x.X.Type()) {
		if n, ok := x.Type().(*types.Named); ok && n.Obj().Pkg() != nil && g.eng.contracts.ClosedIfaces[n.Obj().Pkg().Path()+"."+n.Obj().Name()] {
			if _, isAlloc := x.X.(*ssa.Alloc); !isAlloc {
				g.oblige("closediface.nonnil@"+x.Name(), "invariant", fmt.Sprintf("(not (= %s 0))", v.T), "values converted to a closed interface are non-nil pointers", x.Pos())
			}
		}
		g.define(x, fmt.Sprintf("(mkIface %s %s)", tag, v.T))
		return
	}
	box, _ := g.boxFns(v.Sort)
	g.define(x, fmt.Sprintf("(mkIface %s (%s %s))", tag, box, v.T))
}

func (g *VCGen) typeAssert(x *ssa.TypeAssert) {
	v := g.val(x.X)
	if _, isIface := x.AssertedType.Underlying().(*types.Interface); isIface {
		// assertion to an interface type: succeeds iff non-nil and dynamic type implements; we do not model method sets
		ok := g.freshConst("taok", "Bool")
		g.assumeHere(fmt.Sprintf("(=> %s (not (= (if.tag %s) 0)))", ok, v.T))
		if x.CommaOk {
			g.tuples[x] = []SpecVal{{v.T, "Iface", x.AssertedType}, {ok, "Bool", types.Typ[types.Bool]}}
		} else {
			g.oblige("nopanic.typeassert@"+x.Name(), "nopanic", ok, "interface conversion may fail", x.Pos())
			g.vals[x] = SpecVal{v.T, "Iface", x.AssertedType}
		}
		return
	}
	tag := g.so.typeTag(x.AssertedType)
	cond := fmt.Sprintf("(= (if.tag %s) %s)", v.T, tag)
	sortName := g.so.sortOf(x.AssertedType)
	var valT string
	if sortName == "Int" && !isIntType(x.AssertedType) {
		valT = fmt.Sprintf("(if.ref %s)", v.T)
	} else {
		_, unbox := g.boxFns(sortName)
		valT = fmt.Sprintf("(%s (if.ref %s))", unbox, v.T)
	}
	if x.CommaOk {
		res := g.freshConst(smtSym(x.Name())+"!v", sortName)
		g.assume(fmt.Sprintf("(= %s (ite %s %s %s))", res, cond, valT, g.so.zero(x.AssertedType)))
		okc := g.freshConst(smtSym(x.Name())+"!ok", "Bool")
		g.assume(fmt.Sprintf("(= %s %s)", okc, cond))
		g.tuples[x] = []SpecVal{{res, sortName, x.AssertedType}, {okc, "Bool", types.Typ[types.Bool]}}
		return
	}
	g.oblige("nopanic.typeassert@"+x.Name(), "nopanic", cond, "type assertion to "+shortTypeName(x.AssertedType), x.Pos())
	g.assumeHere(cond)
	g.define(x, valT)
}

func (g *VCGen) convert(x *ssa.Convert) {
	v := g.val(x.X)
	from, to := x.X.Type(), x.Type()
	ts := g.so.sortOf(to)
	switch {
	case v.Sort == "Int" && ts == "Int" && isIntType(from) && isIntType(to):
		if w := wrapFn(to); w != "" {
			g.define(x, fmt.Sprintf("(%s %s)", w, v.T))
		} else {
			g.define(x, v.T)
		}
	case v.Sort == ts && v.Sort != "Real":
		g.vals[x] = SpecVal{v.T, ts, to}
	default:
		// float conversions, string<->bytes etc.: unconstrained
		g.havocVal(x)
		g.warnings = append(g.warnings, fmt.Sprintf("conversion %s -> %s is not modelled (result unconstrained)", from, to))
	}
}

func (g *VCGen) sliceInstr(x *ssa.Slice) {
	v := g.val(x.X)
	lo := "0"
	if x.Low != nil {
		lo = g.val(x.Low).T
	}
	switch t := x.X.Type().Underlying().(type) {
	case *types.Slice:
		hi := fmt.Sprintf("(s.len %s)", v.T)
		if x.High != nil {
			hi = g.val(x.High).T
		}
		if x.Max != nil {
			panic(unsupported("3-index slice"))
		}
		if x.Low != nil || x.High != nil {
			goal := fmt.Sprintf("(and (<= 0 %s) (<= %s %s) (<= %s (s.cap %s)))", lo, lo, hi, hi, v.T)
			g.oblige("nopanic.slice@"+x.Name(), "nopanic", goal, "slice bounds out of range", x.Pos())
			g.assumeHere(goal)
		}
		g.define(x, fmt.Sprintf("(mkSlice (s.base %s) (+ (s.off %s) %s) (- %s %s) (- (s.cap %s) %s))", v.T, v.T, lo, hi, lo, v.T, lo))
	case *types.Pointer:
		at := t.Elem().Underlying().(*types.Array)
		hi := fmt.Sprint(at.Len())
		if x.High != nil {
			hi = g.val(x.High).T
		}
		g.define(x, fmt.Sprintf("(mkSlice %s %s (- %s %s) (- %d %s))", v.T, lo, hi, lo, at.Len(), lo))
	case *types.Basic:
		g.havocVal(x)
	default:
		panic(unsupported("slice of " + x.X.Type().String()))
	}
}

func (g *VCGen) makeSlice(x *ssa.MakeSlice) {
	et := x.Type().Underlying().(*types.Slice).Elem()
	ln, cp := g.val(x.Len).T, g.val(x.Cap).T
	goal := fmt.Sprintf("(and (<= 0 %s) (<= %s %s))", ln, ln, cp)
	g.oblige("nopanic.makeslice@"+x.Name(), "nopanic", goal, "makeslice: len out of range", x.Pos())
	g.assumeHere(goal)
	r := g.newRef()
	heap := g.so.sliceHeapFor(et)
	h := g.heapTerm(g.cur, heap)
	g.setHeap(g.cur, heap, fmt.Sprintf("(store %s %s ((as const (Array Int %s)) %s))", h, r, g.so.sortOf(et), g.so.zero(et)))
	g.define(x, fmt.Sprintf("(mkSlice %s 0 %s %s)", r, ln, cp))
}

// ---------------------------------------------------------------- exits

func (g *VCGen) ret(x *ssa.Return) {
	g.retCount++
	var results []SpecVal
	for _, r := range x.Results {
		results = append(results, g.val(r))
	}
	// vacuity guard: this return can be reached under the contract's assumptions (a refuted reachability means the
	// postconditions below hold vacuously here: a contradiction in the contracts or in the engine's model)
	if g.fc != nil && !hasProp(g.fc.Props, "deadreturns") {
		g.obls = append(g.obls, Obligation{Block: g.oblBlock(), Name: fmt.Sprintf("vacuity.reach@ret%d", g.retCount), Kind: "cover", Guard: g.pathCond, Goal: "false", NAssert: len(g.asserts),
			Pos: g.fn.Prog.Fset.Position(x.Pos()), Text: "this return is reachable (must be sat)", Func: g.fn.String()})
	}
	g.checkExit(results, x.Pos(), fmt.Sprintf("ret%d", g.retCount))
	// "atreturn E": like ensures, with the local variables in scope at this return (clauses naming variables that
	// are not in scope here do not apply; a clause that applies at no return fails, see run())
	if g.fc != nil && len(g.fc.AtReturn) > 0 {
		env := g.ownEnv(g.cur)
		env.results = results
		sig := g.fn.Signature
		for i := 0; i < sig.Results().Len(); i++ {
			env.resNames = append(env.resNames, sig.Results().At(i).Name())
		}
		env.locals = g.localsAtInstr(x.Block(), x, nil)
		for k, cl := range g.fc.AtReturn {
			goal, ok := func() (s string, ok bool) {
				defer func() {
					if r := recover(); r != nil {
						if se, isSE := r.(specErr); isSE && strings.Contains(string(se), "unknown identifier") {
							ok = false
							return
						}
						panic(r)
					}
				}()
				return g.trGoal(env, cl), true
			}()
			if !ok {
				continue
			}
			if g.beforeApplied == nil {
				g.beforeApplied = map[string]bool{}
			}
			g.beforeApplied[fmt.Sprintf("atreturn.%d", k)] = true
			g.oblige(fmt.Sprintf("atreturn.%d@ret%d", k, g.retCount), "ensures", goal, "atreturn: "+cl.Text, x.Pos())
		}
	}
}

func (g *VCGen) checkExit(results []SpecVal, pos token.Pos, tag string) {
	if g.fc == nil {
		return
	}
	env := g.ownEnv(g.cur)
	env.results = results
	sig := g.fn.Signature
	for i := 0; i < sig.Results().Len(); i++ {
		env.resNames = append(env.resNames, sig.Results().At(i).Name())
	}
	for k, c := range g.fc.Ensures {
		g.oblige(fmt.Sprintf("ensures.%d@%s", k, tag), "ensures", g.trGoal(env, c), c.Text, pos)
	}
	if g.fc.PanicsIff != nil {
		g.oblige("panics.onlyif@"+tag, "panics", not(g.panicAllowed), "returns normally only when the panic condition is false: "+g.fc.PanicsIff.Text, pos)
	}
	if g.fc.HasPreserves {
		// open-world function: only the listed locations are promised to be kept
		env0 := g.ownEnv(g.entry)
		for k, l := range g.modLocs(env0, g.fc.Preserves) {
			a, b := g.heapTerm(g.entry, l.heap), g.heapTerm(g.cur, l.heap)
			var f string
			switch l.kind {
			case "heap", "global":
				f = fmt.Sprintf("(= %s %s)", b, a)
			case "obj":
				f = fmt.Sprintf("(= (select %s %s) (select %s %s))", b, l.ref, a, l.ref)
			case "field":
				sel := g.so.fieldSel(l.sort, l.st.Field(l.field).Name(), l.field)
				f = fmt.Sprintf("(= (%s (select %s %s)) (%s (select %s %s)))", sel, b, l.ref, sel, a, l.ref)
			default:
				continue
			}
			g.oblige(fmt.Sprintf("preserves.%d@%s", k, tag), "frame", f, fmt.Sprintf("preserved location #%d of the preserves clause (heap %s, %s)", k, l.heap, l.kind), pos)
		}
		return
	}
	if f := g.frameSoFar(g.cur); f != "true" {
		g.oblige("frame@"+tag, "frame", f, "modifies clause respected", pos)
	}
}

func (g *VCGen) panicInstr(x *ssa.Panic) {
	// "before panic: E" — what must hold whenever the function panics explicitly
	g.beforeNamed("panic", x.Pos(), x)
	kind := panicKind(x)
	name := fmt.Sprintf("panic@b%d", x.Block().Index)
	if g.fc != nil && g.fc.MayPanic {
		if noPanicAt(g.fc, "explicit") {
			g.oblige("nopanic.explicit."+name, "nopanic", "false", "explicit panic must be unreachable (contract says 'nopanic explicit')", x.Pos())
		}
		g.pathCond = "false"
		return
	}
	if g.fc == nil || g.fc.PanicsIff == nil {
		g.oblige("nopanic.explicit."+name, "nopanic", "false", "explicit panic must be unreachable (contract has no 'panics iff')", x.Pos())
	} else {
		want := g.fc.PanicKind
		if want == "tla" && kind != "tla" {
			g.oblige("panics.kind."+name, "panics", "false", "panic is not a TLA+ type error (does not wrap ErrTLAType)", x.Pos())
		} else {
			g.oblige("panics.if."+name, "panics", g.panicAllowed, "panics only when: "+g.fc.PanicsIff.Text, x.Pos())
		}
	}
	g.pathCond = "false"
}

// panicKind recognises panic(fmt.Errorf("%w...", ErrTLAType, ...)).
func panicKind(p *ssa.Panic) string {
	v := p.X
	for {
		switch x := v.(type) {
		case *ssa.MakeInterface:
			v = x.X
			continue
		case *ssa.ChangeInterface:
			v = x.X
			continue
		}
		break
	}
	call, ok := v.(*ssa.Call)
	if !ok {
		return "other"
	}
	callee := call.Call.StaticCallee()
	if callee == nil || callee.String() != "fmt.Errorf" || len(call.Call.Args) < 2 {
		return "other"
	}
	c, ok := call.Call.Args[0].(*ssa.Const)
	if !ok || c.Value == nil || !strings.HasPrefix(strings.Trim(c.Value.ExactString(), "\""), "%w") {
		return "other"
	}
	sl, ok := call.Call.Args[1].(*ssa.Slice)
	if !ok {
		return "other"
	}
	al, ok := sl.X.(*ssa.Alloc)
	if !ok {
		return "other"
	}
	for _, ref := range *al.Referrers() {
		ia, ok := ref.(*ssa.IndexAddr)
		if !ok {
			continue
		}
		ic, ok := ia.Index.(*ssa.Const)
		if !ok || ic.Value == nil || ic.Value.ExactString() != "0" {
			continue
		}
		for _, r2 := range *ia.Referrers() {
			st, ok := r2.(*ssa.Store)
			if !ok {
				continue
			}
			var sv ssa.Value = st.Val
			for {
				switch y := sv.(type) {
				case *ssa.MakeInterface:
					sv = y.X
					continue
				case *ssa.ChangeInterface:
					sv = y.X
					continue
				}
				break
			}
			if u, ok := sv.(*ssa.UnOp); ok {
				if gl, ok := u.X.(*ssa.Global); ok && gl.Name() == "ErrTLAType" {
					return "tla"
				}
			}
		}
	}
	return "other"
}

// heaps written directly (not through open-world calls) in a loop
func heapsStoredInLoop(g *VCGen, li *loopInfo) map[string]bool {
	out := map[string]bool{}
	for b := range li.blocks {
		for _, in := range b.Instrs {
			if nx, ok := in.(*ssa.Next); ok {
				if k := g.iterKeyStatic(nx.Iter); k != "" {
					out[k] = true
				}
			}
		}
	}
	return out
}

func nbackEdges(g *VCGen, h *ssa.BasicBlock) int {
	n := 0
	for _, p := range h.Preds {
		if g.backEdge[[2]int{p.Index, h.Index}] {
			n++
		}
	}
	return n
}
