package main

import (
	"fmt"
	"strings"
	"unicode"
)

// Spec expression AST.
type Expr interface{}

type (
	EIdent struct{ Name string }
	EInt   struct{ V string }
	EStr   struct{ V string }
	EBool  struct{ V bool }
	EUn    struct {
		Op string
		X  Expr
	}
	EBin struct {
		Op   string
		L, R Expr
	}
	ECall struct {
		Fn   string
		Args []Expr
	}
	ESel struct {
		X     Expr
		Field string
	}
	EIdx struct {
		X, I Expr
	}
	ESliceE struct {
		X, Lo, Hi Expr
	}
	Binder struct {
		Name, Type string
	}
	EQuant struct {
		Forall   bool
		Vars     []Binder
		Body     Expr
		Triggers [][]Expr // explicit patterns: forall x T {p1, p2} {q} :: body
	}
)

type specTok struct {
	kind string // id int str op eof
	text string
	pos  int
}

func lexSpec(s string) ([]specTok, error) {
	var toks []specTok
	i := 0
	ops := []string{"<==>", "==>", "::", "==", "!=", "<=", ">=", "&&", "||", "(", ")", "[", "]", ",", ".", ":", "<", ">", "+", "-", "*", "/", "%", "!", "?", "{", "}"}
	for i < len(s) {
		c := rune(s[i])
		if unicode.IsSpace(c) {
			i++
			continue
		}
		if unicode.IsLetter(c) || c == '_' || c == '$' || c == '#' {
			j := i + 1
			for j < len(s) && (unicode.IsLetter(rune(s[j])) || unicode.IsDigit(rune(s[j])) || s[j] == '_' || s[j] == '$' || s[j] == '\'' || s[j] == '#') {
				j++
			}
			toks = append(toks, specTok{"id", s[i:j], i})
			i = j
			continue
		}
		if unicode.IsDigit(c) {
			j := i + 1
			for j < len(s) && unicode.IsDigit(rune(s[j])) {
				j++
			}
			toks = append(toks, specTok{"int", s[i:j], i})
			i = j
			continue
		}
		if c == '"' {
			j := i + 1
			for j < len(s) && s[j] != '"' {
				if s[j] == '\\' {
					j++
				}
				j++
			}
			if j >= len(s) {
				return nil, fmt.Errorf("unterminated string at %d", i)
			}
			toks = append(toks, specTok{"str", s[i+1 : j], i})
			i = j + 1
			continue
		}
		matched := false
		for _, op := range ops {
			if strings.HasPrefix(s[i:], op) {
				toks = append(toks, specTok{"op", op, i})
				i += len(op)
				matched = true
				break
			}
		}
		if !matched {
			return nil, fmt.Errorf("bad character %q at %d in %q", c, i, s)
		}
	}
	toks = append(toks, specTok{"eof", "", len(s)})
	return toks, nil
}

type specParser struct {
	toks []specTok
	p    int
	src  string
}

func parseSpecExpr(s string) (e Expr, err error) {
	toks, err := lexSpec(s)
	if err != nil {
		return nil, err
	}
	ps := &specParser{toks: toks, src: s}
	defer func() {
		if r := recover(); r != nil {
			if pe, ok := r.(parseErr); ok {
				err = fmt.Errorf("%s in %q", string(pe), s)
				return
			}
			panic(r)
		}
	}()
	e = ps.expr()
	if ps.peek().kind != "eof" {
		ps.fail("unexpected %q", ps.peek().text)
	}
	return e, nil
}

type parseErr string

func (ps *specParser) fail(f string, a ...interface{}) {
	panic(parseErr(fmt.Sprintf("spec parse error at %d: ", ps.peek().pos) + fmt.Sprintf(f, a...)))
}
func (ps *specParser) peek() specTok { return ps.toks[ps.p] }
func (ps *specParser) next() specTok  { t := ps.toks[ps.p]; ps.p++; return t }
func (ps *specParser) isOp(s string) bool {
	t := ps.peek()
	return t.kind == "op" && t.text == s
}
func (ps *specParser) isId(s string) bool {
	t := ps.peek()
	return t.kind == "id" && t.text == s
}
func (ps *specParser) expectOp(s string) {
	if !ps.isOp(s) {
		ps.fail("expected %q, got %q", s, ps.peek().text)
	}
	ps.next()
}

func (ps *specParser) expr() Expr {
	if ps.isId("forall") || ps.isId("exists") {
		fa := ps.next().text == "forall"
		var vars []Binder
		for {
			var names []string
			for {
				t := ps.next()
				if t.kind != "id" {
					ps.fail("binder name expected")
				}
				names = append(names, t.text)
				if ps.isOp(",") {
					ps.next()
					continue
				}
				break
			}
			// last name is actually the type if followed by :: or ,; grammar: x, y T, z U :: body
			// we parse "names... Type" where Type is an id (possibly with brackets)
			// The loop above consumed names separated by commas; the type follows the last name.
			typ := ""
			for {
				pk := ps.peek()
				if pk.kind == "id" || (pk.kind == "op" && (pk.text == "*" || pk.text == "[" || pk.text == "]" || pk.text == ".")) {
					typ += ps.next().text
					continue
				}
				break
			}
			if typ == "" {
				ps.fail("binder type expected, got %q", ps.peek().text)
			}
			for _, n := range names {
				vars = append(vars, Binder{n, typ})
			}
			if ps.isOp(",") {
				ps.next()
				continue
			}
			break
		}
		var trigs [][]Expr
		for ps.isOp("{") {
			ps.next()
			var mp []Expr
			for !ps.isOp("}") {
				mp = append(mp, ps.expr())
				if ps.isOp(",") {
					ps.next()
				}
			}
			ps.expectOp("}")
			trigs = append(trigs, mp)
		}
		ps.expectOp("::")
		body := ps.expr()
		return EQuant{fa, vars, body, trigs}
	}
	return ps.iff()
}

func (ps *specParser) iff() Expr {
	l := ps.impl()
	for ps.isOp("<==>") {
		ps.next()
		r := ps.impl()
		l = EBin{"<==>", l, r}
	}
	return l
}

func (ps *specParser) impl() Expr {
	l := ps.or()
	if ps.isOp("==>") {
		ps.next()
		var r Expr
		if ps.isId("forall") || ps.isId("exists") {
			r = ps.expr()
		} else {
			r = ps.impl()
		}
		return EBin{"==>", l, r}
	}
	return l
}

func (ps *specParser) or() Expr {
	l := ps.and()
	for ps.isOp("||") {
		ps.next()
		r := ps.and()
		l = EBin{"||", l, r}
	}
	return l
}

func (ps *specParser) and() Expr {
	l := ps.cmp()
	for ps.isOp("&&") {
		ps.next()
		var r Expr
		if ps.isId("forall") || ps.isId("exists") {
			r = ps.expr()
		} else {
			r = ps.cmp()
		}
		l = EBin{"&&", l, r}
	}
	return l
}

func (ps *specParser) cmp() Expr {
	l := ps.add()
	for {
		t := ps.peek()
		if t.kind == "op" && (t.text == "==" || t.text == "!=" || t.text == "<" || t.text == "<=" || t.text == ">" || t.text == ">=") {
			ps.next()
			r := ps.add()
			l = EBin{t.text, l, r}
			continue
		}
		if t.kind == "id" && t.text == "in" {
			ps.next()
			r := ps.add()
			l = EBin{"in", l, r}
			continue
		}
		return l
	}
}

func (ps *specParser) add() Expr {
	l := ps.mul()
	for ps.isOp("+") || ps.isOp("-") {
		op := ps.next().text
		r := ps.mul()
		l = EBin{op, l, r}
	}
	return l
}

func (ps *specParser) mul() Expr {
	l := ps.unary()
	for {
		t := ps.peek()
		if t.kind == "op" && (t.text == "*" || t.text == "/" || t.text == "%") {
			ps.next()
			r := ps.unary()
			l = EBin{t.text, l, r}
			continue
		}
		if t.kind == "id" && (t.text == "div" || t.text == "mod") {
			ps.next()
			r := ps.unary()
			l = EBin{t.text, l, r}
			continue
		}
		return l
	}
}

func (ps *specParser) unary() Expr {
	if ps.isOp("!") {
		ps.next()
		return EUn{"!", ps.unary()}
	}
	if ps.isOp("-") {
		ps.next()
		return EUn{"-", ps.unary()}
	}
	return ps.postfix()
}

func (ps *specParser) postfix() Expr {
	e := ps.primary()
	for {
		if ps.isOp(".") {
			ps.next()
			t := ps.next()
			if t.kind != "id" {
				ps.fail("field name expected")
			}
			e = ESel{e, t.text}
			continue
		}
		if ps.isOp("[") {
			ps.next()
			var lo, hi Expr
			if !ps.isOp(":") {
				lo = ps.expr()
			}
			if ps.isOp(":") {
				ps.next()
				if !ps.isOp("]") {
					hi = ps.expr()
				}
				ps.expectOp("]")
				e = ESliceE{e, lo, hi}
				continue
			}
			ps.expectOp("]")
			e = EIdx{e, lo}
			continue
		}
		return e
	}
}

func (ps *specParser) primary() Expr {
	t := ps.next()
	switch t.kind {
	case "int":
		return EInt{t.text}
	case "str":
		return EStr{t.text}
	case "id":
		switch t.text {
		case "true":
			return EBool{true}
		case "false":
			return EBool{false}
		}
		if ps.isOp("(") {
			ps.next()
			var args []Expr
			for !ps.isOp(")") {
				args = append(args, ps.expr())
				if ps.isOp(",") {
					ps.next()
				} else if !ps.isOp(")") {
					ps.fail("expected , or ) in call to %s", t.text)
				}
			}
			ps.expectOp(")")
			return ECall{t.text, args}
		}
		return EIdent{t.text}
	case "op":
		if t.text == "(" {
			e := ps.expr()
			ps.expectOp(")")
			return e
		}
	}
	ps.p--
	ps.fail("unexpected %q", t.text)
	return nil
}
