package main

import (
	"flag"
	"fmt"
	"os"
	"sort"
	"strings"
	"time"
)

func main() {
	if len(os.Args) < 2 {
		fmt.Fprintln(os.Stderr, "usage: pgoverify check|list ...")
		os.Exit(2)
	}
	switch os.Args[1] {
	case "check":
		os.Exit(cmdCheck(os.Args[2:]))
	case "ssa":
		eng := newEngine("/repo", "/verif/specs")
		if err := eng.load(defaultModules); err != nil {
			fmt.Fprintln(os.Stderr, err)
			os.Exit(2)
		}
		for k, fn := range eng.allFuncs {
			if strings.Contains(k, os.Args[2]) {
				fmt.Println("==", k)
				fn.WriteTo(os.Stdout)
			}
		}
	default:
		fmt.Fprintln(os.Stderr, "unknown command", os.Args[1])
		os.Exit(2)
	}
}

var defaultModules = []string{"distsys"}

var startTime = time.Now()

func cmdCheck(args []string) int {
	fs := flag.NewFlagSet("check", flag.ExitOnError)
	prop := fs.String("prop", "", "property id")
	tier := fs.String("tier", "quick", "quick|thorough")
	repo := fs.String("repo", "/repo", "repository root")
	verif := fs.String("verif", "/verif", "verif root")
	only := fs.String("func", "", "restrict to functions/lemmas whose name contains this")
	verbose := fs.Bool("v", false, "verbose")
	keep := fs.Bool("keep", false, "keep SMT files")
	timeout := fs.Int("timeout", 0, "per-obligation timeout (s)")
	mods := fs.String("mods", "", "comma-separated module dirs (default distsys)")
	updHints := fs.Bool("update-hints", false, "record unsat cores of the proved obligations in <verif>/hints.json")
	noHints := fs.Bool("no-hints", false, "ignore <verif>/hints.json")
	fs.Parse(args)
	eng := newEngine(*repo, *verif+"/specs")
	eng.verbose = *verbose
	eng.timeoutS = 10
	if *tier == "thorough" {
		eng.timeoutS = 60
		eng.crossCheck = true
	}
	if *timeout > 0 {
		eng.timeoutS = *timeout
	}
	wd, err := os.MkdirTemp("", "pgoverify.")
	if err != nil {
		fmt.Fprintln(os.Stderr, err)
		return 2
	}
	eng.workDir = wd
	if !*noHints {
		eng.hints = loadHints(*verif + "/hints.json")
		eng.updateHints = *updHints
		defer eng.hints.save()
	}
	if !*keep {
		defer os.RemoveAll(wd)
	} else {
		fmt.Println("work dir:", wd)
	}
	modules := defaultModules
	if *mods != "" {
		modules = strings.Split(*mods, ",")
	}
	if err := eng.load(modules); err != nil {
		fmt.Fprintln(os.Stderr, "load error:", err)
		return 2
	}
	for i := range eng.contracts.Ghosts {
		gd := eng.contracts.Ghosts[i]
		eng.ghosts[gd.name] = &gd
	}
	run := eng.runProperty(*prop, *only)
	if *only != "" {
		return run.report(eng, *prop, *tier, *verif)
	}
	seed := 0
	fmt.Sscan(os.Getenv("VERIF_SEED"), &seed)
	return run.writeReport(eng, reportOpts{prop: *prop, tier: *tier, verif: *verif, seed: seed, start: startTime})
}

type PropRun struct {
	Results []FuncResult
	Missing []string
}

func (eng *Engine) runProperty(prop, only string) *PropRun {
	pr := &PropRun{}
	type job struct {
		fc *FuncContract
		l  *Lemma
	}
	var jobs []job
	for _, fc := range eng.contracts.FuncList {
		if fc.Trusted {
			continue
		}
		if prop != "" && !hasProp(fc.Props, prop) {
			continue
		}
		if only != "" && !strings.Contains(fc.Name, only) {
			continue
		}
		if strings.HasPrefix(fc.Name, "(") && eng.allFuncs[fc.Pkg+"::"+fc.Name] == nil && isIfaceContract(eng, fc) {
			continue
		}
		if strings.HasPrefix(fc.Name, "dyn:") {
			continue
		}
		jobs = append(jobs, job{fc: fc})
	}
	for _, l := range eng.contracts.Lemmas {
		if l.Axiom {
			continue
		}
		if prop != "" && !hasProp(l.Props, prop) {
			continue
		}
		if only != "" && !strings.Contains(l.Name, only) {
			continue
		}
		jobs = append(jobs, job{l: l})
	}
	pr.Results = make([]FuncResult, len(jobs))
	parallelDo(len(jobs), 8, func(i int) {
		j := jobs[i]
		if j.l != nil {
			pr.Results[i] = eng.verifyLemmaSafe(j.l)
			return
		}
		fn := eng.allFuncs[j.fc.Pkg+"::"+j.fc.Name]
		if fn == nil {
			pr.Results[i] = FuncResult{Func: j.fc.Pkg + "." + j.fc.Name, Contract: fmt.Sprintf("%s:%d", j.fc.File, j.fc.Line), Error: "missing: contracted function not found in the current source"}
			return
		}
		pr.Results[i] = eng.verifyFuncSafe(fn, j.fc)
	})
	return pr
}

func isIfaceContract(eng *Engine, fc *FuncContract) bool {
	// "(Iface).Method" where Iface is an interface type of the package
	p := eng.typesPkg(fc.Pkg)
	if p == nil {
		return false
	}
	i := strings.Index(fc.Name, ")")
	if i < 0 {
		return false
	}
	name := strings.TrimPrefix(fc.Name[1:i], "*")
	o := p.Scope().Lookup(name)
	if o == nil {
		return false
	}
	_, ok := o.Type().Underlying().(interface{ NumMethods() int })
	return ok
}

var genLock = make(chan struct{}, 1)

func (eng *Engine) verifyFuncSafe(fn interface{ String() string }, fc *FuncContract) FuncResult {
	f := eng.allFuncs[fc.Pkg+"::"+fc.Name]
	return eng.verifyFunc(f, fc)
}

func (eng *Engine) verifyLemmaSafe(l *Lemma) FuncResult {
	return eng.verifyLemma(l)
}

func (pr *PropRun) report(eng *Engine, prop, tier, verif string) int {
	total, ok := 0, 0
	var failed []OblResult
	var errors []string
	sort.Slice(pr.Results, func(i, j int) bool { return pr.Results[i].Func < pr.Results[j].Func })
	for _, r := range pr.Results {
		if r.Error != "" {
			errors = append(errors, r.Func+": "+r.Error)
			fmt.Printf("ERROR  %s: %s\n", r.Func, r.Error)
			continue
		}
		nok := 0
		for _, o := range r.Obls {
			total++
			if o.Status == "unsat" {
				ok++
				nok++
			} else {
				failed = append(failed, o)
			}
		}
		fmt.Printf("%-6s %s: %d/%d obligations discharged (gen %.1fs)\n", map[bool]string{true: "OK", false: "FAIL"}[nok == len(r.Obls)], r.Func, nok, len(r.Obls), r.GenS)
		if eng.verbose {
			for _, o := range r.Obls {
				fmt.Printf("    %-8s %-40s %-10s %.2fs  %s\n", o.Status, o.Name, o.Backend, o.TimeS, o.Text)
			}
			for _, w := range r.Warnings {
				fmt.Printf("    warning: %s\n", w)
			}
		}
	}
	for _, o := range failed {
		fmt.Printf("FAILED %s#%s [%s] %s (%s)\n", o.Func, o.Name, o.Status, o.Text, o.Pos)
		if eng.verbose {
			fmt.Println("       query:", o.File)
		}
	}
	fmt.Printf("property %s: %d/%d obligations discharged, %d functions with errors\n", prop, ok, total, len(errors))
	if len(failed) > 0 || len(errors) > 0 {
		return 1
	}
	return 0
}
