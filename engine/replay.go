package main

import (
	"bytes"
	"encoding/json"
	"fmt"
	"go/types"
	"os"
	"os/exec"
	"path/filepath"
	"strings"

	"golang.org/x/tools/go/ssa"
)

// Replay of a failed obligation on the real code.
//
// The quantified VCs make the solvers answer unknown/timeout, so no model is available to decode. For functions whose
// contract lies in an executable fragment (scalar / TLA+-number / TLA+-boolean arguments; clauses built from kinds,
// projections, arithmetic, comparisons and non-recursive spec functions) the contract itself is compiled to Go and the
// REAL function is run, inside its own package via `go test -overlay`, on a fixed pool of boundary inputs. The first
// input on which the real function contradicts its contract is the failing input reported with the violation. When the
// contract is outside the fragment, or no input of the pool fails, the violation is reported with
// no-failing-input-found, as before. The replay never turns a discharged obligation into a violation: it only runs for
// obligations that already failed.

type replayCtx struct {
	eng   *Engine
	fn    *ssa.Function
	fc    *FuncContract
	pkg   *types.Package
	funcs map[string]string // compiled spec functions: name -> Go source
	err   error
	usesDomain bool
}

type rType int

const (
	rtBool rType = iota
	rtInt
	rtValue // a Go expression of type tla.Value (or the package-local Value)
	rtAbs   // abs(<Go expression of type Value>)
	rtSet   // setOf(abs(v)): src is the Go expression of the set-valued tla.Value
)

type rExpr struct {
	src string
	t   rType
}

func (rc *replayCtx) fail(f string, a ...interface{}) rExpr {
	if rc.err == nil {
		rc.err = fmt.Errorf(f, a...)
	}
	return rExpr{"false", rtBool}
}

func (rc *replayCtx) valueQual() string {
	if rc.pkg.Path() == "github.com/DistCompiler/pgo/distsys/tla" {
		return ""
	}
	return "tla."
}

// compile translates a spec expression of the executable fragment into a Go expression.
func (rc *replayCtx) compile(e Expr, vars map[string]rExpr) rExpr {
	switch x := e.(type) {
	case EInt:
		return rExpr{"int64(" + x.V + ")", rtInt}
	case EBool:
		if x.V {
			return rExpr{"true", rtBool}
		}
		return rExpr{"false", rtBool}
	case EIdent:
		if v, ok := vars[x.Name]; ok {
			return v
		}
		return rc.fail("identifier %s", x.Name)
	case EUn:
		v := rc.compile(x.X, vars)
		switch x.Op {
		case "!":
			if v.t == rtBool {
				return rExpr{"(!" + v.src + ")", rtBool}
			}
		case "-":
			if v.t == rtInt {
				return rExpr{"(-" + v.src + ")", rtInt}
			}
		}
		return rc.fail("unary %s", x.Op)
	case EBin:
		l, r := rc.compile(x.L, vars), rc.compile(x.R, vars)
		switch x.Op {
		case "&&", "||":
			if l.t == rtBool && r.t == rtBool {
				return rExpr{"(" + l.src + " " + x.Op + " " + r.src + ")", rtBool}
			}
		case "==>":
			if l.t == rtBool && r.t == rtBool {
				return rExpr{"(!" + l.src + " || " + r.src + ")", rtBool}
			}
		case "<==>":
			if l.t == rtBool && r.t == rtBool {
				return rExpr{"(" + l.src + " == " + r.src + ")", rtBool}
			}
		case "==", "!=":
			if l.t == r.t && (l.t == rtBool || l.t == rtInt) {
				return rExpr{"(" + l.src + " " + x.Op + " " + r.src + ")", rtBool}
			}
			if l.t == rtAbs && r.t == rtAbs {
				// equality of abstract values: decided by Value.Equal (verified against abs under C05)
				if x.Op == "==" {
					return rExpr{"(" + l.src + ").Equal(" + r.src + ")", rtBool}
				}
				return rExpr{"!(" + l.src + ").Equal(" + r.src + ")", rtBool}
			}
		case "<", "<=", ">", ">=":
			if l.t == rtInt && r.t == rtInt {
				return rExpr{"(" + l.src + " " + x.Op + " " + r.src + ")", rtBool}
			}
		case "+", "-", "*":
			if l.t == rtInt && r.t == rtInt {
				return rExpr{"(" + l.src + " " + x.Op + " " + r.src + ")", rtInt}
			}
		case "in":
			if l.t == rtAbs && r.t == rtSet {
				return rExpr{"pvSetHas(" + r.src + ", " + l.src + ")", rtBool}
			}
		case "div":
			if l.t == rtInt && r.t == rtInt {
				return rExpr{"pvEuclidDiv(" + l.src + ", " + r.src + ")", rtInt}
			}
		case "mod":
			if l.t == rtInt && r.t == rtInt {
				return rExpr{"pvEuclidMod(" + l.src + ", " + r.src + ")", rtInt}
			}
		}
		return rc.fail("binary %s on these operands", x.Op)
	case ECall:
		switch x.Fn {
		case "old":
			return rc.compile(x.Args[0], vars) // arguments are values: nothing to age
		case "abs":
			v := rc.compile(x.Args[0], vars)
			if v.t == rtValue {
				return rExpr{v.src, rtAbs}
			}
			return rc.fail("abs of a non-value")
		case "ite":
			c, a, b := rc.compile(x.Args[0], vars), rc.compile(x.Args[1], vars), rc.compile(x.Args[2], vars)
			if c.t == rtBool && a.t == b.t && (a.t == rtInt || a.t == rtBool) {
				ty := map[rType]string{rtInt: "int64", rtBool: "bool"}[a.t]
				return rExpr{fmt.Sprintf("func() %s { if %s { return %s }; return %s }()", ty, c.src, a.src, b.src), a.t}
			}
			return rc.fail("ite")
		case "isNum", "isBool", "isStr", "isSet", "isTup", "isFun":
			v := rc.compile(x.Args[0], vars)
			if v.t != rtAbs {
				return rc.fail("%s of a non-abstract value", x.Fn)
			}
			m := map[string]string{"isNum": "IsNumber", "isBool": "IsBool", "isStr": "IsString", "isSet": "IsSet", "isTup": "IsTuple", "isFun": "IsFunction"}[x.Fn]
			return rExpr{"(" + v.src + ")." + m + "()", rtBool}
		case "setOf":
			v := rc.compile(x.Args[0], vars)
			if v.t != rtAbs {
				return rc.fail("setOf")
			}
			return rExpr{v.src, rtSet}
		case "numOf":
			v := rc.compile(x.Args[0], vars)
			if v.t != rtAbs {
				return rc.fail("numOf")
			}
			return rExpr{"int64((" + v.src + ").AsNumber())", rtInt}
		case "boolOf":
			v := rc.compile(x.Args[0], vars)
			if v.t != rtAbs {
				return rc.fail("boolOf")
			}
			return rExpr{"(" + v.src + ").AsBool()", rtBool}
		case "wrap32":
			v := rc.compile(x.Args[0], vars)
			if v.t == rtInt {
				return rExpr{"int64(int32(" + v.src + "))", rtInt}
			}
			return rc.fail("wrap32")
		}
		sf := rc.eng.specFn(x.Fn)
		if sf == nil || sf.Body == nil || sf.Rec {
			return rc.fail("spec function %s is not executable", x.Fn)
		}
		var args []string
		for _, a := range x.Args {
			v := rc.compile(a, vars)
			if v.t != rtInt && v.t != rtBool {
				return rc.fail("argument of %s", x.Fn)
			}
			args = append(args, v.src)
		}
		if _, done := rc.funcs[x.Fn]; !done {
			rc.funcs[x.Fn] = "" // recursion guard
			inner := map[string]rExpr{}
			var ps []string
			for _, p := range sf.Params {
				switch p.Type {
				case "int", "Int", "int32", "int64", "uint32":
					inner[p.Name] = rExpr{p.Name, rtInt}
					ps = append(ps, p.Name+" int64")
				case "bool", "Bool":
					inner[p.Name] = rExpr{p.Name, rtBool}
					ps = append(ps, p.Name+" bool")
				default:
					return rc.fail("parameter type %s of %s", p.Type, x.Fn)
				}
			}
			body := rc.compile(sf.Body.E, inner)
			ret := map[rType]string{rtInt: "int64", rtBool: "bool"}[body.t]
			if ret == "" {
				return rc.fail("result of %s", x.Fn)
			}
			rc.funcs[x.Fn] = fmt.Sprintf("func pvSpec_%s(%s) %s { return %s }\n", x.Fn, strings.Join(ps, ", "), ret, body.src)
		}
		rt := rtInt
		if sf.Ret == "bool" || sf.Ret == "Bool" {
			rt = rtBool
		}
		return rExpr{"pvSpec_" + x.Fn + "(" + strings.Join(args, ", ") + ")", rt}
	}
	if q, ok := e.(EQuant); ok && len(q.Vars) == 1 && q.Vars[0].Type == "Val" {
		// quantification over TLA+ values, evaluated over the elements occurring in the arguments and the result
		// (sound for clauses whose atoms about the bound variable are memberships in those sets)
		inner := map[string]rExpr{}
		for k, v := range vars {
			inner[k] = v
		}
		name := "pvq_" + q.Vars[0].Name
		inner[q.Vars[0].Name] = rExpr{name, rtAbs}
		body := rc.compile(q.Body, inner)
		if body.t != rtBool {
			return rc.fail("quantifier body")
		}
		rc.usesDomain = true
		if q.Forall {
			return rExpr{fmt.Sprintf("func() bool { for _, %s := range pvDomain() { if !(%s) { return false } }; return true }()", name, body.src), rtBool}
		}
		return rExpr{fmt.Sprintf("func() bool { for _, %s := range pvDomain() { if %s { return true } }; return false }()", name, body.src), rtBool}
	}
	return rc.fail("expression outside the executable fragment")
}

// replayPool: Go source of the candidate inputs for one parameter type
func (rc *replayCtx) replayPool(t types.Type) (goType string, pool []string, ok bool) {
	q := rc.valueQual()
	if n, isNamed := t.(*types.Named); isNamed && n.Obj().Name() == "Value" && n.Obj().Pkg() != nil && n.Obj().Pkg().Path() == "github.com/DistCompiler/pgo/distsys/tla" {
		for _, v := range []string{"0", "1", "-1", "2", "-2", "3", "-3", "7", "-7", "2147483647", "-2147483648", "46341", "65536", "-65536"} {
			pool = append(pool, q+"MakeNumber("+v+")")
		}
		pool = append(pool, q+"MakeBool(true)", q+"MakeBool(false)", q+"MakeString(\"s\")", q+"MakeSet()", q+"MakeTuple()",
			q+"MakeSet("+q+"MakeNumber(1))", q+"MakeSet("+q+"MakeNumber(1), "+q+"MakeNumber(2))", q+"MakeSet("+q+"MakeNumber(2), "+q+"MakeNumber(3), "+q+"MakeString(\"s\"))")
		return q + "Value", pool, true
	}
	if b, isBasic := t.Underlying().(*types.Basic); isBasic {
		switch b.Kind() {
		case types.Bool:
			return "bool", []string{"true", "false"}, true
		case types.Int, types.Int64, types.Int32:
			gt := map[types.BasicKind]string{types.Int: "int", types.Int64: "int64", types.Int32: "int32"}[b.Kind()]
			return gt, []string{"0", "1", "-1", "2", "-2", "3", "7", "-7", "2147483647", "-2147483648"}, true
		}
	}
	return "", nil, false
}

// tryReplay: see the comment at the top of this file. Returns true when a failing input was found on the real code.
func (eng *Engine) tryReplay(r FuncResult, o OblResult, rep map[string]interface{}) bool {
	if r.fn == nil || r.fc == nil || os.Getenv("PGOVERIFY_NO_REPLAY") != "" {
		return false
	}
	switch o.Kind {
	case "ensures", "panics", "nopanic":
	default:
		return false
	}
	fn, fc := r.fn, r.fc
	if fn.Signature.Recv() != nil || fn.Parent() != nil || fn.TypeParams().Len() > 0 || fn.Pkg == nil {
		return false
	}
	if fn.Signature.Results().Len() != 1 || fn.Signature.Variadic() || fc.MayPanic || len(fc.Requires) > 0 && false {
		return false
	}
	rc := &replayCtx{eng: eng, fn: fn, fc: fc, pkg: fn.Pkg.Pkg, funcs: map[string]string{}}
	vars := map[string]rExpr{}
	var paramDecls, paramNames []string
	var pools [][]string
	for _, p := range fn.Params {
		gt, pool, ok := rc.replayPool(p.Type())
		if !ok {
			return false
		}
		paramDecls = append(paramDecls, p.Name()+" "+gt)
		paramNames = append(paramNames, p.Name())
		pools = append(pools, pool)
		if strings.HasSuffix(gt, "Value") {
			vars[p.Name()] = rExpr{p.Name(), rtValue}
		} else if gt == "bool" {
			vars[p.Name()] = rExpr{p.Name(), rtBool}
		} else {
			vars[p.Name()] = rExpr{"int64(" + p.Name() + ")", rtInt}
		}
	}
	if len(pools) == 0 || len(pools) > 3 {
		return false
	}
	resT, _, ok := rc.replayPool(fn.Signature.Results().At(0).Type())
	if !ok {
		return false
	}
	if strings.HasSuffix(resT, "Value") {
		vars["result"] = rExpr{"pvRes", rtValue}
	} else if resT == "bool" {
		vars["result"] = rExpr{"pvRes", rtBool}
	} else {
		vars["result"] = rExpr{"int64(pvRes)", rtInt}
	}
	// requires (all must compile), panic condition (must compile if present), ensures (those that compile)
	pre := "true"
	for _, c := range fc.Requires {
		v := rc.compile(c.E, vars)
		if rc.err != nil || v.t != rtBool {
			return false
		}
		pre += " && " + v.src
	}
	panicCond := "false"
	if fc.PanicsIff != nil {
		v := rc.compile(fc.PanicsIff.E, vars)
		if rc.err != nil || v.t != rtBool {
			return false
		}
		panicCond = v.src
	}
	type ens struct{ src, text string }
	var enss []ens
	for _, c := range fc.Ensures {
		rc.err = nil
		v := rc.compile(c.E, vars)
		if rc.err == nil && v.t == rtBool {
			enss = append(enss, ens{v.src, c.Text})
		}
	}
	rc.err = nil
	var b bytes.Buffer
	fmt.Fprintf(&b, "package %s\n\nimport (\n\t\"errors\"\n\t\"fmt\"\n\t\"testing\"\n", rc.pkg.Name())
	if rc.valueQual() != "" {
		fmt.Fprintf(&b, "\t\"github.com/DistCompiler/pgo/distsys/tla\"\n")
	}
	fmt.Fprintf(&b, ")\n\n// generated by pgoverify: the contract of %s compiled to Go and run against the real function\n", fn.Name())
	b.WriteString("func pvEuclidDiv(a, b int64) int64 { if b == 0 { return 0 }; q := a / b; if a%b < 0 { if b > 0 { q-- } else { q++ } }; return q }\n")
	b.WriteString("func pvEuclidMod(a, b int64) int64 { if b == 0 { return a }; m := a % b; if m < 0 { if b > 0 { m += b } else { m -= b } }; return m }\n")
	for _, src := range rc.funcs {
		b.WriteString(src)
	}
	q := rc.valueQual()
	fmt.Fprintf(&b, "var pvDom []%sValue\nfunc pvDomain() []%sValue { return pvDom }\n", q, q)
	fmt.Fprintf(&b, "func pvSetHas(set, x %sValue) bool { if !set.IsSet() { return false }; _, ok := set.AsSet().Get(x); return ok }\n", q)
	fmt.Fprintf(&b, "func pvCollect(vs ...%sValue) { pvDom = []%sValue{%sMakeNumber(0), %sMakeNumber(1), %sMakeNumber(2), %sMakeNumber(3), %sMakeString(\"s\")}; for _, v := range vs { pvDom = append(pvDom, v); if v.IsSet() { it := v.AsSet().Iterator(); for !it.Done() { e, _, _ := it.Next(); pvDom = append(pvDom, e) } } } }\n", q, q, q, q, q, q, q)
	tlaErr := rc.valueQual() + "ErrTLAType"
	fmt.Fprintf(&b, "\nfunc pvCheck(%s) (bad string) {\n", strings.Join(paramDecls, ", "))
	fmt.Fprintf(&b, "\tdefer func() { if r := recover(); r != nil { bad = fmt.Sprint(\"the contract itself could not be evaluated on this input: \", r) } }()\n")
	var valueParams []string
	for i, p := range fn.Params {
		if strings.HasSuffix(strings.SplitN(paramDecls[i], " ", 2)[1], "Value") {
			valueParams = append(valueParams, p.Name())
		}
	}
	fmt.Fprintf(&b, "\tpvCollect(%s)\n", strings.Join(valueParams, ", "))
	fmt.Fprintf(&b, "\tif !(%s) { return \"\" }\n", pre)
	fmt.Fprintf(&b, "\texpectPanic := %s\n", panicCond)
	fmt.Fprintf(&b, "\tvar pvRes %s\n\tpanicked, isTLA, pval := false, false, interface{}(nil)\n", resT)
	fmt.Fprintf(&b, "\tfunc() {\n\t\tdefer func() { if r := recover(); r != nil { panicked = true; pval = r; if e, ok := r.(error); ok && errors.Is(e, %s) { isTLA = true } } }()\n\t\tpvRes = %s(%s)\n\t}()\n", tlaErr, fn.Name(), strings.Join(paramNames, ", "))
	fmt.Fprintf(&b, "\t_ = isTLA\n\tif panicked != expectPanic { return fmt.Sprintf(\"contract: panics iff %%v; real code: panicked=%%v (%%v)\", expectPanic, panicked, pval) }\n")
	if fc.PanicKind == "tla" {
		fmt.Fprintf(&b, "\tif panicked && !isTLA { return fmt.Sprintf(\"the panic is not a TLA+ type error: %%v\", pval) }\n")
	}
	fmt.Fprintf(&b, "\tif panicked { return \"\" }\n")
	if strings.HasSuffix(resT, "Value") {
		fmt.Fprintf(&b, "\tpvCollect(%s)\n", strings.Join(append(append([]string{}, valueParams...), "pvRes"), ", "))
	}
	for _, e := range enss {
		fmt.Fprintf(&b, "\tif !(%s) { return fmt.Sprintf(\"ensures %%s is false; result = %%v\", %q, pvRes) }\n", e.src, e.text)
	}
	fmt.Fprintf(&b, "\treturn \"\"\n}\n\nfunc TestPgoverifyReplay(t *testing.T) {\n")
	// nested loops over the pools
	for i, pool := range pools {
		fmt.Fprintf(&b, "\tfor _, %s := range []%s{%s} {\n", paramNames[i], strings.SplitN(paramDecls[i], " ", 2)[1], strings.Join(pool, ", "))
	}
	var fmtArgs []string
	for _, n := range paramNames {
		fmtArgs = append(fmtArgs, n)
	}
	fmt.Fprintf(&b, "\t\tif bad := pvCheck(%s); bad != \"\" {\n\t\t\tfmt.Printf(\"REPLAY-FAIL input=%%v :: %%s\\n\", []interface{}{%s}, bad)\n\t\t\tt.FailNow()\n\t\t}\n", strings.Join(paramNames, ", "), strings.Join(fmtArgs, ", "))
	for range pools {
		b.WriteString("\t}\n")
	}
	b.WriteString("}\n")

	// run it inside the real package through an overlay (nothing is written to /repo)
	pos := fn.Prog.Fset.Position(fn.Pos())
	pkgDir := filepath.Dir(pos.Filename)
	tmp, err := os.MkdirTemp("", "pvreplay.")
	if err != nil {
		return false
	}
	defer os.RemoveAll(tmp)
	testSrc := filepath.Join(tmp, "replay_test.go")
	if os.WriteFile(testSrc, b.Bytes(), 0644) != nil {
		return false
	}
	ov, _ := json.Marshal(map[string]interface{}{"Replace": map[string]string{filepath.Join(pkgDir, "zz_pgoverify_replay_test.go"): testSrc}})
	ovPath := filepath.Join(tmp, "ov.json")
	if os.WriteFile(ovPath, ov, 0644) != nil {
		return false
	}
	cmd := exec.Command("go", "test", "-overlay", ovPath, "-vet=off", "-count=1", "-timeout", "60s", "-run", "^TestPgoverifyReplay$", ".")
	cmd.Dir = pkgDir
	cmd.Env = cleanGoEnv()
	out, _ := cmd.CombinedOutput()
	for _, line := range strings.Split(string(out), "\n") {
		if strings.HasPrefix(line, "REPLAY-FAIL ") {
			rep["failing_input"] = strings.TrimPrefix(line, "REPLAY-FAIL ")
			rep["failing_input_origin"] = "the solvers returned no model (quantified context); the function's contract was compiled to Go and the real function was run inside its package (go test -overlay) on a fixed pool of boundary inputs; this is the first input on which the real code contradicts the contract"
			rep["replay_test_source"] = b.String()
			rep["replay_cmd"] = "save replay_test_source as " + filepath.Join(pkgDir, "zz_pgoverify_replay_test.go") + " (or pass it with go test -overlay) and run: go test -vet=off -count=1 -run '^TestPgoverifyReplay$' . in " + pkgDir
			return true
		}
	}
	if !strings.Contains(string(out), "ok ") && !strings.Contains(string(out), "PASS") {
		rep["replay_note"] = "replay harness did not run: " + firstLines(string(out), 8)
	} else {
		rep["replay_note"] = "the contract was run against the real function on the boundary-input pool and no input failed"
	}
	return false
}
