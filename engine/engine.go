package main

import (
	"fmt"
	"go/types"
	"os"
	"path/filepath"
	"sort"
	"strings"
	"sync"
	"time"

	"golang.org/x/tools/go/packages"
	"golang.org/x/tools/go/ssa"
	"golang.org/x/tools/go/ssa/ssautil"
)

type ghostDecl struct {
	name, sort string
	pkg        string // package whose scope resolves the sort
}

type rawAcc struct{ fn, sort string }

type Engine struct {
	repo        string
	specDir     string
	prog        *ssa.Program
	pkgs        []*packages.Package
	spkgs       map[string]*ssa.Package
	contracts   *Contracts
	allFuncs    map[string]*ssa.Function // contract key -> function
	ghosts      map[string]*ghostDecl
	rawAccessors map[string]rawAcc
	lenFns      map[string]string
	immHeaps    map[string]bool
	rawDeclared map[string]bool
	specInfos   map[*VCGen]map[string]*specFnInfo
	concurrency concurrencyModel
	implCache   map[string][]types.Type
	aliasCache  map[string]types.Type
	epochCounter int
	sendCache    map[string]string
	outOfLine   map[string]bool // "qualified struct type.field": struct-typed field whose address escapes
	workDir     string
	hints       *hintStore
	crossCheck  bool // thorough tier: a proof found by one solver family is re-checked by the other
	updateHints bool
	timeoutS    int
	verbose     bool
	loadS       float64
}

func (eng *Engine) curSpecInfo(g *VCGen) map[string]*specFnInfo {
	if eng.specInfos[g] == nil {
		eng.specInfos[g] = map[string]*specFnInfo{}
	}
	return eng.specInfos[g]
}

func (eng *Engine) specFn(name string) *SpecFn {
	for _, sf := range eng.contracts.SpecFns {
		if sf.Name == name {
			return sf
		}
	}
	return nil
}

func (eng *Engine) typesPkg(path string) *types.Package {
	if path == "" {
		return nil
	}
	if sp, ok := eng.spkgs[path]; ok {
		return sp.Pkg
	}
	for _, p := range eng.prog.AllPackages() {
		if p.Pkg.Path() == path {
			return p.Pkg
		}
	}
	return nil
}

func (eng *Engine) immNamed(name string, args ...types.Type) types.Type {
	p := eng.typesPkg(immPkg)
	if p == nil {
		panic(unsupported("immutable package not loaded"))
	}
	orig := p.Scope().Lookup(name).Type()
	t, err := types.Instantiate(nil, orig, args, false)
	if err != nil {
		panic(err)
	}
	return t
}

// evalGoType evaluates a Go type expression in the file scope of some file of the alias's package.
func (eng *Engine) evalGoType(al SortAlias) types.Type {
	if t, ok := eng.aliasCache[al.Name]; ok {
		return t
	}
	for _, p := range eng.pkgs {
		if p.PkgPath != al.Pkg {
			continue
		}
		for _, f := range p.Syntax {
			tv, err := types.Eval(p.Fset, p.Types, f.End()-1, "(*struct{ x "+al.GoExpr+" })(nil)")
			if err == nil {
				t := tv.Type.(*types.Pointer).Elem().(*types.Struct).Field(0).Type()
				eng.aliasCache[al.Name] = t
				return t
			}
		}
	}
	panic(specErr("cannot evaluate Go type " + al.GoExpr + " for sort " + al.Name))
}

func (eng *Engine) nextEpoch() int {
	eng.epochCounter++
	return eng.epochCounter
}

func (eng *Engine) specialSort(t types.Type) (string, bool) { return "", false }

func (eng *Engine) sigOf(fc *FuncContract) *types.Signature {
	if fn := eng.allFuncs[fc.Pkg+"::"+fc.Name]; fn != nil {
		return fn.Signature
	}
	return nil
}

func (eng *Engine) ifaceContract(c *ssa.CallCommon) *FuncContract {
	it := c.Value.Type()
	n, ok := it.(*types.Named)
	if !ok {
		return nil
	}
	if n.Obj().Pkg() == nil {
		// universe: error
		return eng.contracts.Funcs["::(error)."+c.Method.Name()]
	}
	key := n.Obj().Pkg().Path() + "::(" + n.Obj().Name() + ")." + c.Method.Name()
	if fc := eng.contracts.Funcs[key]; fc != nil {
		return fc
	}
	// a method inherited from an embedded interface: the contract of the interface that declares it
	if it, ok := n.Underlying().(*types.Interface); ok {
		for i := 0; i < it.NumEmbeddeds(); i++ {
			en, ok := it.EmbeddedType(i).(*types.Named)
			if !ok || en.Obj().Pkg() == nil {
				continue
			}
			if eit, ok := en.Underlying().(*types.Interface); ok {
				for j := 0; j < eit.NumMethods(); j++ {
					if eit.Method(j).Name() == c.Method.Name() {
						if fc := eng.contracts.Funcs[en.Obj().Pkg().Path()+"::("+en.Obj().Name()+")."+c.Method.Name()]; fc != nil {
							return fc
						}
					}
				}
			}
		}
	}
	return nil
}

func newEngine(repo, specDir string) *Engine {
	return &Engine{repo: repo, specDir: specDir, spkgs: map[string]*ssa.Package{}, allFuncs: map[string]*ssa.Function{},
		ghosts: map[string]*ghostDecl{}, rawAccessors: map[string]rawAcc{}, lenFns: map[string]string{}, immHeaps: map[string]bool{},
		rawDeclared: map[string]bool{}, implCache: map[string][]types.Type{}, aliasCache: map[string]types.Type{}, sendCache: map[string]string{}, outOfLine: map[string]bool{}, specInfos: map[*VCGen]map[string]*specFnInfo{}, timeoutS: 10}
}

// load loads the given module directories (relative to repo) with the verif tag.
func (eng *Engine) load(dirs []string) error {
	start := time.Now()
	var all []*packages.Package
	for _, d := range dirs {
		cfg := &packages.Config{Mode: packages.LoadSyntax, Dir: filepath.Join(eng.repo, d), BuildFlags: []string{"-tags=verif"},
			Env: cleanGoEnv()}
		pkgs, err := packages.Load(cfg, "./...")
		if err != nil {
			return fmt.Errorf("loading %s: %v", d, err)
		}
		for _, p := range pkgs {
			for _, e := range p.Errors {
				return fmt.Errorf("package %s: %v", p.PkgPath, e)
			}
		}
		all = append(all, pkgs...)
	}
	eng.pkgs = all
	prog, spkgs := ssautil.AllPackages(all, ssa.InstantiateGenerics|ssa.GlobalDebug)
	prog.Build()
	eng.prog = prog
	for i, p := range all {
		if spkgs[i] != nil {
			eng.spkgs[p.PkgPath] = spkgs[i]
		}
	}
	eng.loadS = time.Since(start).Seconds()
	// contracts
	eng.contracts = newContracts()
	if err := eng.contracts.loadSpecDir(eng.specDir); err != nil {
		return err
	}
	for _, p := range all {
		for _, f := range p.GoFiles {
			if strings.HasSuffix(f, "_verif.go") {
				if err := eng.contracts.loadContractFile(f, p.PkgPath, true); err != nil {
					return err
				}
			}
		}
	}
	// index functions
	for fn := range ssautil.AllFunctions(prog) {
		p := funcPkg(fn)
		if p == nil {
			continue
		}
		if _, ours := eng.spkgs[p.Path()]; !ours {
			continue
		}
		for _, k := range eng.contractKeys(fn) {
			if _, ok := eng.allFuncs[k]; !ok {
				eng.allFuncs[k] = fn
			}
		}
	}
	eng.findOutOfLineFields()
	// immutable heaps
	for k := range eng.contracts.Immut {
		i := strings.LastIndex(k, ".")
		pkgPath, name := k[:i], k[i+1:]
		if tp := eng.typesPkg(pkgPath); tp != nil {
			eng.immHeaps["H!"+smtSym(tp.Name()+"."+name)] = true
		}
	}
	for _, l := range eng.contracts.RawSMT {
		// remember functions declared by raw SMT so that bodyless spec declarations do not redeclare them
		f := strings.Fields(strings.TrimLeft(l, "("))
		if len(f) >= 2 && (f[0] == "declare-fun" || f[0] == "define-fun" || f[0] == "declare-const" || f[0] == "define-fun-rec") {
			eng.rawDeclared[f[1]] = true
		}
	}
	for _, sf := range eng.contracts.SpecFns {
		if eng.rawDeclared[sf.Name] {
			sf.Raw = true
		}
	}
	return nil
}

func cleanGoEnv() []string {
	var env []string
	for _, e := range os.Environ() {
		if strings.HasPrefix(e, "GOFLAGS=") || strings.HasPrefix(e, "GOWORK=") || strings.HasPrefix(e, "GOSUMDB=") || strings.HasPrefix(e, "GOPROXY=") || strings.HasPrefix(e, "GOTOOLCHAIN=") {
			continue
		}
		env = append(env, e)
	}
	env = append(env, "GOPROXY=off", "GOFLAGS=")
	return env
}

// ---------------------------------------------------------------- running VCs

type OblResult struct {
	Obligation
	Status  string
	Backend string
	TimeS   float64
	Output  string
	File    string
}

type FuncResult struct {
	fn        *ssa.Function // for the replay of failed obligations
	fc        *FuncContract
	Func      string
	Contract  string
	Error     string // unsupported / spec error
	Obls      []OblResult
	Trusted   []string
	Callees   []string
	Warnings  []string
	GenS      float64
}

func (eng *Engine) queryText(g *VCGen, o Obligation, lemmaFacts []string) string {
	var b strings.Builder
	b.WriteString("(set-option :produce-models true)\n(set-logic ALL)\n")
	b.WriteString(preludeCore)
	if g.fn == nil || (g.fc != nil && hasProp(g.fc.Props, "nonlinear")) {
		b.WriteString(mulInterp)
	} else {
		b.WriteString(mulUninterp)
	}
	for _, l := range eng.contracts.RawSMT {
		if !strings.HasPrefix(l, "late:") {
			b.WriteString(l + "\n")
		}
	}
	for _, d := range g.so.decls {
		b.WriteString(d + "\n")
	}
	for _, d := range g.so.strDecls() {
		b.WriteString(d + "\n")
	}
	for _, d := range g.specDecls {
		b.WriteString(d + "\n")
	}
	for _, l := range eng.contracts.RawSMT {
		if strings.HasPrefix(l, "late:") {
			b.WriteString(l[5:] + "\n")
		}
	}
	for _, d := range g.decls {
		b.WriteString(d + "\n")
	}
	for _, f := range lemmaFacts {
		b.WriteString("(assert " + f + ")\n")
	}
	for _, a := range g.relevantAsserts(o) {
		b.WriteString("(assert " + a + ")\n")
	}
	if o.Guard != "true" && o.Guard != "" {
		b.WriteString("(assert " + o.Guard + ")\n")
	}
	b.WriteString("(assert (not " + o.Goal + "))\n")
	b.WriteString("(check-sat)\n")
	return b.String()
}

var genMu sync.Mutex

// verifyFunc generates and discharges the VCs of one function.
func (eng *Engine) verifyFunc(fn *ssa.Function, fc *FuncContract) (res FuncResult) {
	res.fn, res.fc = fn, fc
	res.Func = fn.String()
	res.Contract = fmt.Sprintf("%s:%d", fc.File, fc.Line)
	start := time.Now()
	genMu.Lock()
	g := newVCGen(eng, fn, fc)
	g.so.special = eng.specialSortFor(g)
	var lemmaFacts []string
	var texts, textsNoLemma []string
	func() {
		defer genMu.Unlock()
		defer func() {
			if r := recover(); r != nil {
				switch e := r.(type) {
				case unsupportedErr:
					res.Error = "unsupported: " + string(e)
				case specErr:
					res.Error = "spec error: " + string(e)
				default:
					panic(r)
				}
			}
		}()
		g.run()
		lemmaFacts = eng.lemmaFacts(g, fc.Pkg, nil)
		for _, o := range g.obls {
			texts = append(texts, eng.queryText(g, o, lemmaFacts))
			if len(lemmaFacts) > 0 {
				textsNoLemma = append(textsNoLemma, eng.queryText(g, o, nil))
			} else {
				textsNoLemma = append(textsNoLemma, "")
			}
		}
		delete(eng.specInfos, g)
	}()
	res.GenS = time.Since(start).Seconds()
	if res.Error != "" {
		return
	}
	for k := range g.usedTrusted {
		res.Trusted = append(res.Trusted, k)
	}
	sort.Strings(res.Trusted)
	for k := range g.usedCallees {
		res.Callees = append(res.Callees, k)
	}
	sort.Strings(res.Callees)
	res.Warnings = g.warnings
	res.Obls = make([]OblResult, len(g.obls))
	// obligation names can repeat within a function (one per dispatch target); hint keys carry the occurrence number
	occ := make([]int, len(g.obls))
	seenName := map[string]int{}
	for i, o := range g.obls {
		occ[i] = seenName[o.Name]
		seenName[o.Name]++
	}
	parallelDo(len(g.obls), 6, func(i int) {
		o := g.obls[i]
		text := texts[i]
		name := shortFuncName(fn) + "#" + o.Name
		to := eng.timeoutS
		if o.Kind == "cover" {
			to = 1 // a contradictory precondition is refuted at once; satisfiability of quantified contexts is rarely decided
		}
		var r solveResult
		fullName := fn.String() + "#" + o.Name
		if occ[i] > 0 {
			fullName += "~" + itoa(occ[i])
		}
		tryHint := func(hint map[string]bool, tag string) bool {
			if hint == nil || o.Kind == "cover" {
				return false
			}
			ht, _, _ := hintedText(text, hint)
			hr := solveWith(eng.workDir, name+".hint"+tag, ht, minInt(to, 10), []string{"z3-5.1.0", "z3-4.8.12", "cvc5-1.0"})
			if hr.status == "unsat" {
				if eng.crossCheck {
					// independent confirmation by a solver of the other family (z3 vs cvc5) on the same query
					other := []string{"cvc5-1.0"}
					if strings.HasPrefix(hr.backend, "cvc5") {
						other = []string{"z3-5.1.0", "z3-4.8.12"}
					}
					cr := solveWith(eng.workDir, name+".hint.x"+tag, ht, to, other)
					switch cr.status {
					case "unsat":
						hr.backend += "+confirmed:" + cr.backend
					case "sat":
						// the two families disagree: do not accept the proof
						hr.status = "unknown"
						hr.output = "solver disagreement on the hinted query: " + hr.backend + " says unsat, " + cr.backend + " says sat"
					default:
						hr.backend += "+unconfirmed"
					}
				}
			}
			if hr.status == "unsat" {
				hr.backend += "+hint" + tag
				res.Obls[i] = OblResult{Obligation: o, Status: hr.status, Backend: hr.backend, TimeS: hr.timeS, Output: hr.output, File: filepath.Join(eng.workDir, sanitizeFile(name)+".hint.smt2")}
				return true
			}
			return false
		}
		exact, known := eng.hints.lookup(fullName)
		if tryHint(exact, "") {
			return
		}
		// the per-function union is for obligations the hint file does not know (new or renamed by an edit), not for
		// those recorded as having no usable hint
		if !known && !eng.updateHints && tryHint(eng.hints.getUnion(fn.String()), ".fn") {
			return
		}
		defer func() {
			if eng.updateHints && eng.hints != nil && o.Kind != "cover" && res.Obls[i].Status == "unsat" {
				if hashes, ok := extractCore(text, 120); ok {
					// keep the hint only if it is actually useful: the hinted query must be refuted quickly
					ht, _, _ := hintedText(text, hashSet(hashes))
					vr := solveWith(eng.workDir, name+".hint.v", ht, 10, []string{"z3-5.1.0", "z3-4.8.12", "cvc5-1.0"})
					if vr.status == "unsat" {
						eng.hints.put(fullName, hashes)
						return
					}
				}
				eng.hints.put(fullName, []string{"-"}) // no usable hint: go straight to the full query next time
			}
		}()
		if textsNoLemma[i] != "" && o.Kind != "cover" {
			// variant without the quantified lemma facts first, on a short budget (most obligations do not need
			// them, and they can send the instantiation engines astray); then the full context; and if that
			// fails too, the lemma-free variant once more on the full budget
			r = solveWith(eng.workDir, name+".nolemma", textsNoLemma[i], 3, []string{"z3-5.1.0", "z3-5.1.0/noext"})
			if r.status != "unsat" {
				r2 := solve(eng.workDir, name, text, to, nil)
				r2.timeS += r.timeS
				r = r2
			}
			if r.status != "unsat" {
				r3 := solve(eng.workDir, name+".nolemma", textsNoLemma[i], to, nil)
				r3.timeS += r.timeS
				if r3.status == "unsat" {
					r = r3
				}
			}
		} else {
			r = solve(eng.workDir, name, text, to, coverOnly(o))
		}
		or := OblResult{Obligation: o, Status: r.status, Backend: r.backend, TimeS: r.timeS, Output: r.output, File: filepath.Join(eng.workDir, sanitizeFile(name)+".smt2")}
		if o.Kind == "cover" {
			// must be satisfiable
			switch r.status {
			case "sat":
				or.Status = "unsat" // discharged: cover reached
			case "unsat":
				or.Status = "vacuous"
			default:
				// unknown: quantified preconditions often cannot be shown sat; not a failure
				or.Status = "unsat"
				or.Backend = "cover-undecided"
			}
		}
		res.Obls[i] = or
	})
	// Unreachable returns. A return that the solver proves unreachable is usually error plumbing behind a callee whose
	// contract excludes the error, so it is reported in the evidence but is not a failure; a function none of whose
	// returns is reachable (and that is not declared to panic always) satisfies every postcondition vacuously: failure.
	var reach, dead []int
	for i, o := range res.Obls {
		if strings.HasPrefix(o.Name, "vacuity.reach@") {
			reach = append(reach, i)
			if o.Status == "vacuous" {
				dead = append(dead, i)
			}
		}
	}
	allDead := len(reach) > 0 && len(dead) == len(reach)
	for k, i := range dead {
		if allDead && k == 0 {
			res.Obls[i].Text = "no return of the function is reachable under its contract: " + res.Obls[i].Text
			continue
		}
		res.Obls[i].Status = "unsat"
		res.Obls[i].Backend = "dead-return"
		res.Warnings = append(res.Warnings, fmt.Sprintf("return at %s is unreachable under the contracts (%s)", res.Obls[i].Pos, res.Obls[i].Name))
	}
	return
}

func minInt(a, b int) int {
	if a < b {
		return a
	}
	return b
}

func shortFuncName(fn *ssa.Function) string {
	s := fn.String()
	if p := funcPkg(fn); p != nil {
		s = strings.ReplaceAll(s, p.Path()+".", "")
	}
	return s
}

// cover (vacuity) queries only need a quick refutation attempt by one back end
func coverOnly(o Obligation) []string {
	if o.Kind == "cover" {
		return []string{"z3-5.1.0"}
	}
	return nil
}

// findOutOfLineFields: a struct-typed field whose address is used for anything but an immediate load, store or
// further field selection (typically: as the receiver of a pointer method) is modelled as a separate heap cell
// owned by the enclosing object (ref = fld(owner, field index)); the pointer can then flow anywhere.
func (eng *Engine) findOutOfLineFields() {
	for fn := range ssautil.AllFunctions(eng.prog) {
		for _, b := range fn.Blocks {
			for _, in := range b.Instrs {
				fa, ok := in.(*ssa.FieldAddr)
				if !ok {
					continue
				}
				pt, ok := fa.X.Type().Underlying().(*types.Pointer)
				if !ok {
					continue
				}
				st, ok := pt.Elem().Underlying().(*types.Struct)
				if !ok {
					continue
				}
				if _, isStruct := st.Field(fa.Field).Type().Underlying().(*types.Struct); !isStruct {
					continue
				}
				if fa.Referrers() == nil {
					continue
				}
				for _, r := range *fa.Referrers() {
					esc := true
					switch x := r.(type) {
					case *ssa.UnOp, *ssa.FieldAddr, *ssa.DebugRef:
						esc = false
					case *ssa.Store:
						esc = x.Val == ssa.Value(fa)
					}
					if esc {
						eng.outOfLine[outOfLineKey(pt.Elem(), st, fa.Field)] = true
					}
				}
			}
		}
	}
}

func outOfLineKey(owner types.Type, st *types.Struct, field int) string {
	return qualTypeName(owner) + "." + st.Field(field).Name()
}

func (eng *Engine) isOutOfLine(owner types.Type, st *types.Struct, field int) bool {
	if n, ok := owner.(*types.Named); ok && n.Obj().Pkg() != nil && eng.contracts.Immut[n.Obj().Pkg().Path()+"."+n.Obj().Name()] {
		return false // write-once objects keep all fields inline (abs must not depend on a mutable heap)
	}
	return eng.outOfLine[outOfLineKey(owner, st, field)]
}

func (eng *Engine) hasOutOfLineFields(t types.Type) bool {
	st, ok := t.Underlying().(*types.Struct)
	if !ok {
		return false
	}
	for i := 0; i < st.NumFields(); i++ {
		if eng.isOutOfLine(t, st, i) {
			return true
		}
	}
	return false
}
