#!/bin/sh
# usage: tools_qiprof.sh file.smt2 [seconds]  — top quantifiers by instantiation count (z3 4.8.12)
f="$1"; t=${2:-15}
z3 -smt2 -t:${t}000 smt.qi.profile=true "$f" > /tmp/prof.out 2>&1
head -1 /tmp/prof.out
grep quantifier_instances /tmp/prof.out | sort -t: -k2 -n -r | head -${3:-8} | while read a name c n rest; do
  l=$(echo "$name" | sed 's/k!//'); echo "== $name $n"; sed -n "${l}p" "$f" | cut -c1-700; done
