package resources

// Demo for the known finding "AWORSet.Merge is not associative on reachable states" (property C12).
// Copy into distsys/resources and run: go test -run TestFindingAWORSetMergeNotAssociative ./resources/
// The test PASSES when the defect is present (it asserts the divergence), and fails once Merge is associative.
//
// Four states, all produced by Write/Merge from Init (so all reachable):
//   d  = r2 adds x                     add{x:{r2:1}}            (r2's state before it removed x; delivered late)
//   b  = r2 adds x, r2 removes x       rem{x:{r2:2}}
//   a  = r1 adds x                     add{x:{r1:1}}
//   c  = r3 receives a, r3 removes x   rem{x:{r1:1,r3:1}}
// ((a ⊔ b) ⊔ c) ⊔ d  reads {x};  (a ⊔ (b ⊔ c)) ⊔ d  reads {}: two replicas that have received the same four states
// in a different grouping disagree for good, because a ⊔ b drops b's tombstone clock (concurrent: add wins) and
// with it the information that r2's add was already removed.

import (
	"testing"

	"github.com/DistCompiler/pgo/distsys/tla"
)

func TestFindingAWORSetMergeNotAssociative(t *testing.T) {
	req := func(cmd int32, val tla.Value) tla.Value {
		return tla.MakeRecord([]tla.RecordField{
			{Key: tla.MakeString("cmd"), Value: tla.MakeNumber(cmd)},
			{Key: tla.MakeString("elem"), Value: val},
		})
	}
	x := tla.MakeString("x")
	r1, r2, r3 := tla.MakeString("r1"), tla.MakeString("r2"), tla.MakeString("r3")

	d := AWORSet{}.Init().Write(r2, req(1, x))
	b := d.Write(r2, req(2, x))
	a := AWORSet{}.Init().Write(r1, req(1, x))
	c := AWORSet{}.Init().Merge(a).Write(r3, req(2, x))

	left := a.Merge(b).Merge(c)
	right := a.Merge(b.Merge(c))
	if !left.Read().Equal(right.Read()) {
		t.Fatalf("already the two groupings read differently: %v vs %v", left.Read(), right.Read())
	}
	l, r := left.Merge(d).Read(), right.Merge(d).Read()
	t.Logf("(a.b).c = %v   a.(b.c) = %v", left, right)
	t.Logf("((a.b).c).d reads %v   (a.(b.c)).d reads %v", l, r)
	if l.Equal(r) {
		t.Fatalf("Merge was associative on this history (finding no longer reproduces): both read %v", l)
	}
}
